"""Single source of truth for MANIFEST.json (regenerate with `python3-vt tools_manifest.py`)."""

SETUP = "./setup.sh"

HOOKS = dict(
    guard="PEPIT_VERIF",
    enable="no source hooks are needed: checks import the working tree with PYTHONPATH=$VERIF_REPO (default /repo), "
           "observe it through public/protected attributes, wrapper subclasses registered at run time and a stand-in "
           "`mosek` module injected into sys.modules by the harness only",
    baseline_off_cmd="cd /repo && /venv/bin/python -m pytest -ra -q -p no:cacheprovider --timeout=900 "
                     "--continue-on-collection-errors",
    source_commits=[],
    add_only=True,
)

CHECKS_IDS = ["C01", "C02", "C05", "C06", "C07", "C11", "C12", "C13", "C16"]

ENGINES = [
    dict(name="mc", path="/verif/mc",
         serves_properties=sorted(CHECKS_IDS),
         kind_free_text="hand-written explicit-state / bounded-exhaustive explorer in Python: every case of a finite, "
                        "completely enumerated space of DSL programs / histories / configurations is executed on the "
                        "real library and judged against an independent reference model (mc/refalg.py)"),
]

NOTES = ("All checks run ./check <ID> --tier quick|thorough against the working tree at $VERIF_REPO (default /repo). "
         "Known findings: /verif/known_findings.json (never written at run time). Replays: ./check --replay <file>.")

CHECKS = {
    "C01": dict(
        category="model_checking",
        technique="bounded exhaustive enumeration of a finite model grammar x solver configurations; each solve's "
                  "multipliers recombined by an independent exact-form proof checker",
        text="Every (model, configuration) pair of the finite grammar is solved on the real library (cvxpy path with "
             "CLARABEL / default SCS, MOSEK path through the stand-in, trace / logdet reduction, verbose 0/1/2) and the "
             "exposed multipliers are recombined independently of check_feasibility; the identity, sign and PSD "
             "conditions and 'returned value == constant' are decided for each pair. A known finding (LMIs not symmetric "
             "as written) is matched only through its explanation predicate.",
        note="Bounded by the grammar (24 classes, <= 2 steps, one or two extras) and the parameter tuples; solver "
             "tolerance 2e-6 (CLARABEL) / 5e-3 (SCS default); real MOSEK is modelled by mc/mosek_standin.",
    ),
    "C02": dict(
        category="model_checking",
        technique="same enumeration of models x configurations; eval() of every leaf, sent constraint, LMI and held / "
                  "post-solve-built object compared with the reference evaluation on the returned Gram matrix",
        text="For every (model, configuration) pair the returned instance is checked: Gram reproduction by the evaluated "
             "leaf points, feasibility of every sent constraint and LMI, objective = smallest metric, primal <= dual, and "
             "eval() of every object reachable by the user - held, created before the solve and never sent, or built by "
             "<= 2 DSL operations after the solve - against mc.refalg's evaluation of its decomposition.",
        note="Same bounds as C01; post-solve objects: all results of <= 2 operations over <= 4 held points and <= 3 "
             "held expressions on a sub-family of the cases (every 3rd / 10th case in quick).",
    ),
    "C03": dict(
        category="exploration",
        technique="bounded exhaustive exploration over a finite catalogue of real class members x declaration histories x grid "
                  "assignments x subgradient selections, evaluated on the constraints the real classes generate",
        text="For each of ~530 membership claims (each checked first against the class DEFINITION on a fine grid) every "
             "declaration history up to the bound is driven through the public API, every assignment of grid points and every "
             "listed (sub)gradient selection is written into the leaves, and every generated scalar constraint / class LMI is "
             "evaluated: a constraint that a real member violates makes the relaxation exclude a real execution. The catalogue "
             "contains, for each class, members that attain the generated inequalities with equality, so a tightened "
             "coefficient is visible.",
        note="Finite catalogue (R and R^2, 80 members), grids of 5 / 9 points, histories <= 2 (quick) / 3 (thorough). A weakened "
             "condition is not this property's concern (C04). Level 'exploration': exhaustive over the stated finite space only.",
    ),
    "C04": dict(
        category="model_checking",
        technique="explicit enumeration of all declaration histories <= 3 (4) per class and parameter tuple on the real classes; "
                  "generated constraint systems compared as normalised functionals / LMIs with the documented conditions "
                  "instantiated by sample identity; syntactic differences decided by implication SDPs",
        text="Every interleaving of evaluations, repeated evaluations, evaluations at combinations, stationary points (direct, "
             "through a multiple of the function, or added by hand), fixed points, adjoint evaluations and displacement "
             "vectors up to the length bound is replayed; the generated system must be equivalent to the reference conditions "
             "on every required pair / tuple of the recorded samples - no pair skipped, nothing weakened, whatever the order - "
             "also after the parameters of the same object were changed and the constraints regenerated. Per class the solved "
             "value with the stationary point declared first vs last must agree.",
        note="Reference conditions: mc/catalog/conditions.py (transcribed from the class docstrings / cited theorems). LMIs are "
             "compared up to symmetrisation and scaling. The clause 'a finite primal value is attained by a real member' needs "
             "an interpolating construction and is not decided here.",
    ),
    "C05": dict(
        category="model_checking",
        technique="exhaustive enumeration of all expression shapes (5^9 coefficient dictionaries) through both encoders + "
                  "translation validation of every grammar model: the solver-side problem is read back as affine "
                  "functionals (basis evaluation / recorded MOSEK task) and compared call by call with the declared model",
        text="Shapes: every dictionary over 9 keys (mirrored / diagonal inner products, leaf expressions, constant; absent or "
             "coefficient 0, 1, -2, 1/2) is translated by expression_to_matrices and expression_to_sparse_matrices and "
             "compared exactly with the reference functional. Models: for every grammar model and both wrappers, recording "
             "subclasses log each send call; the multiset of sent objects must equal an independent walk over the declared "
             "model, every solver row must carry the declared sense and the reference affine data, LMI entries must be "
             "coupled to their own auxiliary matrix, nothing else may be posed, and the objective must be the objective leaf.",
        note="Quick: 5^7 shapes, half of the grammar; thorough: 5^9 shapes, full grammar. MOSEK side observed through the "
             "stand-in's recorded task data.",
    ),
    "C06": dict(
        category="model_checking",
        technique="bounded exhaustive enumeration of all typed DSL expression trees (<=3 operator nodes full scalar "
                  "alphabet, <=4 reduced) executed on the real operators vs exact-rational reference algebra",
        text="Every well-typed tree over 5 leaves, 9 scalars and all 31 operator overloads up to the node bound is "
             "executed on the real classes and in an independent exact reference; equality of canonical forms is "
             "equality under every assignment of the leaves, so within the bound the statement is decided, not "
             "sampled. Operand snapshots before/after each application decide no-mutation; all ill-typed operand "
             "pairs at the root must raise.",
        note="Bound: operator nodes <= 3 (quick) / <= 4 with scalars {0,-1,2,1/2} (thorough). Float rounding is "
             "bounded by a running error analysis, not by a loose tolerance. Trusts mc/refalg.py (40 lines).",
    ),
    "C07": dict(
        category="model_checking",
        technique="explicit enumeration of all oracle/gradient/value/stationary/fixed-point/prox call histories up to "
                  "depth 3 (4 on a reduced alphabet) on 9 composite shapes, replayed on the real Function code, "
                  "invariants checked in every reached state",
        text="Every history over the call alphabet x {terms, sum} x 5 point kinds up to the depth bound is replayed on "
             "a fresh PEP; since every prefix is itself enumerated, invariants I1-I6 (one value per point, one gradient "
             "per point for differentiable functions, composite sample = weighted sum of term samples, stationary "
             "points, decomposition-equality of points, freshness) are evaluated in every reachable state.",
        note="Bound: depth 2 full / 3 reduced alphabet (quick), 3 / 4 (thorough); weights from {1,-1,2,0,cancelling,1/3*3}. "
             "Oracle is canonical-form comparison in mc/refalg.py.",
    ),
    "C08": dict(
        category="model_checking",
        technique="exhaustive enumeration of step variants x sizes x function kinds x starting points x preceding step on the real "
                  "primitive steps; returned objects and the exact diff of every function's samples / constraints compared with "
                  "reference descriptions; the references validated on real closed-form operations",
        text="For every combination the step is executed and everything it did is diffed: the returned tuple must satisfy the "
             "documented relation (canonical forms), every function must have gained exactly the documented samples and side "
             "constraints (as functionals with sense) and nothing else, leaves that must be fresh are fresh, the caller's "
             "arguments, the problem and the partitions are untouched, and on a sum the terms' samples add up to the sum's. "
             "The reference descriptions are themselves checked on ~500 real operations (prox, line search, LMO, inexact "
             "directions on the error boundary, epsilon-subgradients, primal-dual pairs, mirror steps).",
        note="13 step variants x sizes {0, 1/2, 1, 2} x 4 function kinds x 3 starting points x 3 preceding-step options. "
             "Concrete side limited to members with closed-form steps (quadratics, |x|, intervals, quadratic mirror maps).",
    ),
    "C09": dict(
        category="exploration",
        technique="bounded exhaustive numerical execution of the modelled methods on a finite catalogue of real class members x "
                  "grid starts x every resolution of the method's nondeterminism, compared with the value the library returns",
        text="30 example families (gradient, momentum / accelerated, line search, inexact, proximal, splitting, Frank-Wolfe, "
             "fixed-point, monotone-operator, variational-inequality, stochastic / coordinate methods) have an independent "
             "numerical implementation; for every grid point of their documented parameter ranges the method is run on every "
             "catalogue member that passes the definitional self-test of the declared class, from every grid start satisfying "
             "the initial condition, under every subgradient selection / epsilon-subgradient end point / inexact direction on "
             "the error boundary / LMO tie / exact expectation over indices. No run may beat the returned value. In ~45% of "
             "the settings a real run attains the returned bound, so a tightened bound is visible there.",
        note="Genuinely partial: catalogue members in R and R^2 only, grid starts, grid parameters, iteration counts <= 6; "
             "continuous-time, potential-function, Bregman / NoLips examples are not covered by real runs.",
    ),
    "C10": dict(
        category="exploration",
        technique="bounded exhaustive run of every shipped example with a closed form over a parameter grid of its documented "
                  "range, plus differential comparison of each run with equivalent reformulations and with the other back-end",
        text="72 example entries x grids (~420 points in the quick tier: several values of every parameter, several iteration "
             "counts, both ends of the documented step-size ranges) are executed; tight rates must be met to 1e-3, upper / lower "
             "bounds respected. Each run of a sub-family is repeated under six equivalent formulations applied just before the "
             "solve (redundant LMI, one-block partition, duplicated metric, inequalities restated as function-level LMIs, "
             "samples recorded in rotated order, MOSEK stand-in back-end): the value must not move.",
        note="Finite grid of continuous ranges; ranges are those the example docstrings state (mc/examples_table.py). Comparisons "
             "between formulations are made only when the solver reports `optimal` for both.",
    ),
    "C11": dict(
        category="model_checking",
        technique="every grammar model x {none, trace, logdet1} formulated through both wrappers; row-by-row comparison of "
                  "the two posed SDPs (cvxpy Problem vs recorded MOSEK task) + value comparison + independent certificate "
                  "and instance checks on both paths",
        text="Decides, for every enumerated model, that the cvxpy path and the MOSEK path pose the same rows in the same "
             "order with the same senses, data, LMI couplings and objective (also for the final problem after a dimension "
             "reduction heuristic), return the same value, and that primal instance and dual certificate are valid on both "
             "paths for the same constraint list (the observable meaning of 'same sign convention').",
        note="Real MOSEK is not installed: the MOSEK side is the stand-in (records the task, solves it through CLARABEL, "
             "answers in MOSEK's documented conventions, self-checks MOSEK's dual equations). Bounded by the grammar.",
    ),
    "C12": dict(
        category="model_checking",
        technique="exhaustive enumeration of process histories (sequences of previous programs) up to length 2 (3) before "
                  "each observed program, each executed in a forked pristine interpreter; byte-exact comparison of the "
                  "solver input with a fresh-interpreter run",
        text="For each of 10 observed programs and every history over a 14-letter alphabet of previous programs (solved, "
             "solved twice, heuristic, MOSEK path, abandoned, unbounded, raising half-way, evaluating module-level null "
             "objects) the exact solver input of the observed program (sha256 of the stuffed cone program handed to "
             "CLARABEL / of the stand-in's MOSEK call log), the names of the objects sent and the returned value are "
             "compared with the same program run first in a fresh interpreter; verbosity 0/1/2.",
        note="Bound: histories of length <= 2 (quick) / 3 (thorough). Each history runs in its own forked process so that a "
             "violation replays from its file. Assumes cvxpy canonicalisation and CLARABEL are deterministic.",
    ),
    "C13": dict(
        category="model_checking",
        technique="explicit enumeration of all solve / edit / evaluate / solver-answer sequences <= 3 (4) on four base models; "
                  "differential oracle against a freshly built equivalent model + certificate / instance of the latest solve",
        text="Every sequence over 5 solve variants (dual, primal, trace, logdet1, MOSEK path), 7 edits, evaluation of held "
             "objects, creation of derived objects and 2 injected solver answers (<= 2 deviations) is executed on one "
             "long-lived problem; after its last solve the problem is compared with a freshly built model carrying the same "
             "edits: returned value, numbering-free multiset of the data sent (so growth with the number of solves is "
             "visible), certificate and instance of the latest solve, eval() of every held object against the current "
             "solution, no dual left on constraints that are no longer sent, and ValueError after a solve without solution.",
        note="Bound: depth 3 (quick) / 4 (thorough) on 4 base models (plain GD, block-smooth + partition, quadratic class with "
             "class LMI, composite + prox + user LMI). CLARABEL tolerance 2e-5 on values.",
    ),
    "C14": dict(
        category="model_checking",
        technique="exhaustive grid models x heuristics x tolerances x regularisations x back-ends x modes, each case compared "
                  "with the same model solved without heuristic (differential oracle) + independent certificate / instance",
        text="For every grid point the solve with a dimension-reduction heuristic must return the dual bound of the original "
             "problem with a certificate valid for the original (recorded) constraint list, a primal value within the "
             "requested tolerance of the optimum, an instance that is feasible and is the solver's own final solution, and - "
             "for the trace heuristic - a Gram trace that did not increase.",
        note="Grid: 13 models (normalised and not, LMI, partition, composite, small-eigenvalue direction, operators) x "
             "{trace, logdet1-3} x tol {1e-6..1e-2} x reg {1e-3,1e-2} x {cvxpy, MOSEK stand-in} x {dual, primal}; quick = every "
             "third grid point. Heuristic re-solves that the solver fails are counted, not judged.",
    ),
    "C15": dict(
        category="model_checking",
        technique="explicit enumeration of all get_block histories <= 4 (5) for d in {1,2,3} on the real BlockPartition; exact "
                  "set comparison of the generated relations with the reference orthogonality set; evaluation on real "
                  "coordinate projections for every coordinate partition of R^n, n <= 3; recorded solves",
        text="Every history over 6 point kinds x block indices is replayed on a fresh partition: the blocks must sum back to "
             "the point, repeated queries must return the identical objects, one block must be the identity, and the "
             "relations generated for the solve must be exactly (as a set of functionals) the orthogonality relations "
             "between different blocks of all decomposed points - checked also numerically on the real projections for "
             "every coordinate partition. Block-smooth solve scenarios (points decomposed only by the class itself, a new "
             "point decomposed between two solves, a hand-added constraint) are observed through recording wrappers.",
        note="Bound: depth 4 / 5 (one less for d = 3); n <= 3; 7 solve scenarios. Block-smooth class constraints on real "
             "members are C03's business.",
    ),
    "C16": dict(
        category="model_checking",
        technique="explicit enumeration of all histories <= 3 (4) over {real solve, injected 'no value' / 'error' solver "
                  "answers, edits to infeasible/unbounded and back, objects from new leaves, MOSEK-path and trace solves} "
                  "against a two-state reference model; plus all object kinds x accessors before a solve, all failing "
                  "grammar models x back-ends, all invalid option values",
        text="Every accessor (eval / eval_dual) of every kind of object (leaf, derived, product, constraint, LMI, class and "
             "partition constraint, objects built from new leaves) is probed in every state reached by the enumerated "
             "histories and compared with the reference 'has a current solution / has none': ValueError exactly, never a "
             "number, never another exception. Failed solves must return None on every back-end and solver; invalid "
             "options must raise.",
        note="Bound: depth 3 on 2 base models (quick), 4 on 3 (thorough); 48 failing models x 4 configurations. Failing "
             "models are judged only when the solver itself reports unbounded/infeasible. MOSEK path = stand-in.",
    ),
    "C17": dict(
        category="model_checking",
        technique="every class x declaration pattern x naming x step count of the grammar solved (twice: a sample is added between "
                  "the solves); tables of dual values compared cell by cell with the documented condition of the pair of "
                  "samples (by identity) and with the multiplier of the constraint at that cell",
        text="For every leaf function of every enumerated model, get_class_constraints_duals() must return one table per "
             "condition with one row / column per recorded sample and the sample labels; cell (i,j) must be the multiplier of "
             "the constraint whose functional is the documented condition instantiated on (row sample i, column sample j) - "
             "0 where none exists; every class constraint sits in exactly one cell and is named "
             "IC_<function>_<condition>(<row label>, <column label>); all of it again after one more sample and a second solve.",
        note="Bounded by the grammar (24 classes, <= 2 steps, 3 patterns, named / unnamed, duplicate labels, composite partner, "
             "second function). Reference conditions: mc/catalog/conditions.py.",
    ),
}

_PENDING = "check not built yet in this session (planned, see DESIGN.md section 4); not claimed until it has run clean and caught a mutant"
NOT_APPLICABLE = {k: _PENDING for k in
                  ["C03", "C04", "C08", "C09", "C10", "C14", "C17"] if k not in CHECKS}
