"""Single source of truth for MANIFEST.json (regenerate with `python3-vt tools_manifest.py`)."""

SETUP = "./setup.sh"

HOOKS = dict(
    guard="PEPIT_VERIF",
    enable="no source hooks are needed: checks import the working tree with PYTHONPATH=$VERIF_REPO (default /repo), "
           "observe it through public/protected attributes, wrapper subclasses registered at run time and a stand-in "
           "`mosek` module injected into sys.modules by the harness only",
    baseline_off_cmd="cd /repo && /venv/bin/python -m pytest -ra -q -p no:cacheprovider --timeout=900 "
                     "--continue-on-collection-errors",
    source_commits=[],
    add_only=True,
)

CHECKS_IDS = ["C06", "C07"]

ENGINES = [
    dict(name="mc", path="/verif/mc",
         serves_properties=sorted(CHECKS_IDS),
         kind_free_text="hand-written explicit-state / bounded-exhaustive explorer in Python: every case of a finite, "
                        "completely enumerated space of DSL programs / histories / configurations is executed on the "
                        "real library and judged against an independent reference model (mc/refalg.py)"),
]

NOTES = ("All checks run ./check <ID> --tier quick|thorough against the working tree at $VERIF_REPO (default /repo). "
         "Known findings: /verif/known_findings.json (never written at run time). Replays: ./check --replay <file>.")

CHECKS = {
    "C06": dict(
        category="model_checking",
        technique="bounded exhaustive enumeration of all typed DSL expression trees (<=3 operator nodes full scalar "
                  "alphabet, <=4 reduced) executed on the real operators vs exact-rational reference algebra",
        text="Every well-typed tree over 5 leaves, 9 scalars and all 31 operator overloads up to the node bound is "
             "executed on the real classes and in an independent exact reference; equality of canonical forms is "
             "equality under every assignment of the leaves, so within the bound the statement is decided, not "
             "sampled. Operand snapshots before/after each application decide no-mutation; all ill-typed operand "
             "pairs at the root must raise.",
        note="Bound: operator nodes <= 3 (quick) / <= 4 with scalars {0,-1,2,1/2} (thorough). Float rounding is "
             "bounded by a running error analysis, not by a loose tolerance. Trusts mc/refalg.py (40 lines).",
    ),
    "C07": dict(
        category="model_checking",
        technique="explicit enumeration of all oracle/gradient/value/stationary/fixed-point/prox call histories up to "
                  "depth 3 (4 on a reduced alphabet) on 9 composite shapes, replayed on the real Function code, "
                  "invariants checked in every reached state",
        text="Every history over the call alphabet x {terms, sum} x 5 point kinds up to the depth bound is replayed on "
             "a fresh PEP; since every prefix is itself enumerated, invariants I1-I6 (one value per point, one gradient "
             "per point for differentiable functions, composite sample = weighted sum of term samples, stationary "
             "points, decomposition-equality of points, freshness) are evaluated in every reachable state.",
        note="Bound: depth 2 full / 3 reduced alphabet (quick), 3 / 4 (thorough); weights from {1,-1,2,0,cancelling,1/3*3}. "
             "Oracle is canonical-form comparison in mc/refalg.py.",
    ),
}

_PENDING = "check not built yet in this session (planned, see DESIGN.md section 4); not claimed until it has run clean and caught a mutant"
NOT_APPLICABLE = {k: _PENDING for k in
                  ["C01", "C02", "C03", "C04", "C05", "C08", "C09", "C10", "C11", "C12", "C13", "C14", "C15",
                   "C16", "C17"]}
