"""Generic runner: shards a check's finite case space over worker processes, aggregates coverage, matches
violations against the committed known-findings file, writes replay artefacts and the evidence file.

    python -m mc.run C06 --tier quick
    python -m mc.run --replay /verif/replays/C06/<sha>.json

A check module (mc/checks/cNN.py) provides
    PROPERTY, LEVEL
    shards(tier)            -> list of JSON-able shard descriptors, simplest first
    run_shard(shard, tier)  -> dict(evaluations, states, transitions, nontrivial, outcomes={str:int},
                                    violations=[{key, msg, case}], samples=[...], extra={str:int})
    replay(case)            -> list of violations ([] if the case no longer violates)
    meta(tier)              -> dict(rule, assumptions, bounds, exhaustive, [trusted_base])
Nothing is sampled: VERIF_SEED only rotates which explored cases are copied into the evidence `samples` list.
"""
import argparse
import collections
import fnmatch
import hashlib
import importlib
import json
import os
import subprocess
import sys
import time
import traceback

for _v in ("OMP_NUM_THREADS", "OPENBLAS_NUM_THREADS", "MKL_NUM_THREADS", "RAYON_NUM_THREADS", "NUMEXPR_NUM_THREADS"):
    os.environ.setdefault(_v, "1")
os.environ.setdefault("PYTHONHASHSEED", "0")

VERIF = os.path.dirname(os.path.dirname(os.path.abspath(__file__)))
REPO = os.environ.get("VERIF_REPO", "/repo")
KNOWN = os.path.join(VERIF, "known_findings.json")


def load_known():
    if not os.path.exists(KNOWN):
        return []
    with open(KNOWN) as fh:
        return json.load(fh).get("findings", [])


def match_known(prop, key, known):
    """An *open* finding matches by property and by key pattern (fnmatch on the mechanically computed finding key).
    `fixed` entries suppress nothing."""
    for ent in known:
        if ent.get("status") != "open" or ent.get("property") != prop:
            continue
        for pat in ent.get("keys", []):
            if fnmatch.fnmatchcase(key, pat):
                return ent
    return None


def _worker(args):
    modname, shard, tier = args
    mod = importlib.import_module(modname)
    t = time.time()
    try:
        res = mod.run_shard(shard, tier)
    except Exception:
        res = dict(evaluations=0, states=0, transitions=0, nontrivial=0, outcomes={}, samples=[], extra={},
                   violations=[], harness_error=traceback.format_exc())
    res["wall"] = time.time() - t
    res["shard"] = shard
    return res


def _case_sha(case):
    return hashlib.sha1(json.dumps(case, sort_keys=True, default=str).encode()).hexdigest()[:16]


def write_replay(prop, viol):
    d = os.path.join(VERIF, "replays", prop)
    os.makedirs(d, exist_ok=True)
    path = os.path.join(d, _case_sha(viol["case"]) + ".json")
    with open(path, "w") as fh:
        json.dump(dict(property=prop, key=viol["key"], msg=viol["msg"], case=viol["case"]), fh, indent=1, default=str)
    return path


def run_replay_subprocess(path):
    """Re-execute a replay file in a fresh interpreter; returns (still_violates, output)."""
    env = dict(os.environ)
    p = subprocess.run([sys.executable, "-m", "mc.run", "--replay", path], cwd=VERIF, env=env,
                       capture_output=True, text=True)
    return p.returncode == 1, p.stdout + p.stderr


def do_replay(path):
    with open(path) as fh:
        rec = json.load(fh)
    prop = rec["property"]
    mod = importlib.import_module("mc.checks." + prop.lower())
    viols = mod.replay(rec["case"])
    known = load_known()
    bad = 0
    for v in viols:
        ent = match_known(prop, v["key"], known)
        if ent is not None:
            print("KNOWN-FINDING: property=%s %s [key=%s]" % (prop, ent["what"], v["key"]))
        else:
            bad += 1
            print("replay: still violates: key=%s :: %s" % (v["key"], v["msg"]))
    if bad:
        print("VIOLATION property=%s replay=%s" % (prop, path))
        return 1
    print("replay: no violation reproduced for %s" % path)
    return 0


def main(argv=None):
    ap = argparse.ArgumentParser()
    ap.add_argument("prop", nargs="?")
    ap.add_argument("--tier", default=os.environ.get("VERIF_TIER", "quick"), choices=["quick", "thorough"])
    ap.add_argument("--jobs", type=int, default=int(os.environ.get("VERIF_JOBS", "16")))
    ap.add_argument("--replay")
    ap.add_argument("--no-evidence", action="store_true")
    a = ap.parse_args(argv)
    if a.replay:
        return do_replay(a.replay)
    prop = a.prop.upper()
    seed = int(os.environ.get("VERIF_SEED", "0") or 0)
    modname = "mc.checks." + prop.lower()
    t0 = time.time()
    mod = importlib.import_module(modname)
    shards = list(mod.shards(a.tier))
    import multiprocessing as mp
    ctx = mp.get_context("fork")
    results = []
    if a.jobs <= 1 or len(shards) <= 1:
        for s in shards:
            results.append(_worker((modname, s, a.tier)))
    else:
        with ctx.Pool(min(a.jobs, len(shards))) as pool:
            for r in pool.imap_unordered(_worker, [(modname, s, a.tier) for s in shards], chunksize=1):
                results.append(r)
    results.sort(key=lambda r: json.dumps(r["shard"], sort_keys=True, default=str))

    tot = collections.Counter()
    outcomes = collections.Counter()
    extra = collections.Counter()
    samples, violations, herr = [], [], []
    for r in results:
        for k in ("evaluations", "states", "transitions", "nontrivial"):
            tot[k] += int(r.get(k, 0))
        outcomes.update(r.get("outcomes", {}))
        extra.update(r.get("extra", {}))
        samples.extend(r.get("samples", []))
        violations.extend(r.get("violations", []))
        if r.get("harness_error"):
            herr.append((r["shard"], r["harness_error"]))

    # ---- determinism: re-run the first shard in a fresh interpreter and demand identical observations
    det = None
    if shards and not herr and getattr(mod, "DETERMINISM_RECHECK", True):
        code = ("import json,sys; from mc.run import _worker; r=_worker((%r, json.loads(sys.argv[1]), %r)); "
                "print('@@'+json.dumps(dict(o=r.get('outcomes',{}), e=r.get('evaluations'), "
                "v=sorted(set(v['key'] for v in r.get('violations',[])))), sort_keys=True))") % (modname, a.tier)
        s0 = getattr(mod, "determinism_shard", lambda tier, sh: sh[0])(a.tier, shards)
        p = subprocess.run([sys.executable, "-c", code, json.dumps(s0)], cwd=VERIF, capture_output=True, text=True)
        line = [l for l in p.stdout.splitlines() if l.startswith("@@")]
        ref = [r for r in results if r["shard"] == s0][0]
        mine = json.dumps(dict(o=dict(ref.get("outcomes", {})), e=ref.get("evaluations"),
                               v=sorted(set(v["key"] for v in ref.get("violations", [])))), sort_keys=True)
        det = bool(line) and line[0][2:] == mine
        if not det:
            herr.append((s0, "determinism re-check in a fresh interpreter differs:\n pool : %s\n fresh: %s\n%s"
                         % (mine, line[0][2:] if line else "<no output>", p.stderr[-2000:])))

    # ---- violations: group by finding key, shortest case first
    known = load_known()
    bykey = collections.OrderedDict()
    for v in sorted(violations, key=lambda v: (len(json.dumps(v["case"], default=str)), json.dumps(v["case"], default=str))):
        bykey.setdefault(v["key"], []).append(v)
    exit_code = 0
    n_known = 0
    reported = []
    shutil_dir = os.path.join(VERIF, "replays", prop)
    for key, vs in bykey.items():
        ent = match_known(prop, key, known)
        if ent is not None:
            n_known += len(vs)
            print("KNOWN-FINDING: property=%s %s [key=%s, %d case(s) in this run, e.g. %s]"
                  % (prop, ent["what"], key, len(vs), json.dumps(vs[0]["case"], default=str)[:300]))
            continue
        v = vs[0]
        path = write_replay(prop, v)
        again, out = run_replay_subprocess(path)
        again2, _ = run_replay_subprocess(path) if again else (False, "")
        if again and again2:
            print("  %s: %s  (%d case(s) with this key)" % (key, v["msg"], len(vs)))
            print("VIOLATION property=%s replay=%s" % (prop, path))
            reported.append(dict(key=key, msg=v["msg"], n=len(vs), replay=path))
            exit_code = 1
        else:
            # a violation that does not reproduce from its replay file in a fresh process is a harness problem,
            # never reported as a property violation
            herr.append((v["case"], "violation did not reproduce from its replay file: key=%s msg=%s\n%s"
                         % (key, v["msg"], out[-1500:])))
    for sh, e in herr:
        print("HARNESS-ERROR shard=%s\n%s" % (json.dumps(sh, default=str)[:300], e), file=sys.stderr)
    if herr and exit_code == 0:
        exit_code = 2

    meta = mod.meta(a.tier)
    wall = time.time() - t0
    # rotate the samples with the seed (presentation only)
    if samples:
        k = seed % len(samples)
        samples = samples[k:] + samples[:k]
    coverage = dict(
        states=tot["states"], transitions=tot["transitions"],
        traces_validated_against_impl=tot["evaluations"],
        evaluations=tot["evaluations"], distinct_nontrivial=tot["nontrivial"],
        rule=meta.get("rule", ""), samples=samples[:8], exhaustive=bool(meta.get("exhaustive", True)) and not herr,
        distinct_outcomes=len(outcomes), outcomes=dict(sorted(outcomes.items(), key=lambda kv: -kv[1])[:60]),
        bounds=meta.get("bounds", {}), shards=len(shards), determinism_recheck=det,
        known_finding_cases=n_known, violation_keys=[r["key"] for r in reported],
        caps_hit=meta.get("caps_hit", []),
    )
    coverage.update({k: int(v) for k, v in extra.items()})
    if "trusted_base" in meta:
        coverage["trusted_base"] = meta["trusted_base"]
    ev = dict(property_id=prop, tier=a.tier, seed=seed, level=mod.LEVEL, coverage=coverage,
              assumptions=meta.get("assumptions", []), wall_s=round(wall, 2), violations=len(reported),
              repo=REPO)
    if not a.no_evidence:
        os.makedirs(os.path.join(VERIF, "evidence"), exist_ok=True)
        with open(os.path.join(VERIF, "evidence", prop + ".json"), "w") as fh:
            json.dump(ev, fh, indent=1, default=str)
    print("%s tier=%s shards=%d evaluations=%d states=%d transitions=%d distinct_outcomes=%d known_finding_cases=%d "
          "violations=%d wall=%.1fs" % (prop, a.tier, len(shards), tot["evaluations"], tot["states"], tot["transitions"],
                                         len(outcomes), n_known, len(reported), wall))
    return exit_code


if __name__ == "__main__":
    sys.exit(main())
