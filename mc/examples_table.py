"""Table of the shipped worked examples that return a theoretical value, with the kind of claim they document
(tight / upper / lower) and a parameter grid inside the documented validity range.

ENTRIES: name -> dict(module, func, kind, base=kwargs at the point pinned by tests/test_examples.py,
                       grid=list of kwargs (documented range: end points the documentation allows + interior points +
                       several iteration counts))
The kind is the one stated in the example's docstring, cross-checked with the assertion used in tests/test_examples.py
(assertAlmostEqual -> tight, assertLessEqual(wc, theory) -> upper, assertLessEqual(theory, wc) -> lower)."""
import itertools
import math

U = "PEPit.examples.unconstrained_convex_minimization"
C = "PEPit.examples.composite_convex_minimization"
N = "PEPit.examples.nonconvex_optimization"
S = "PEPit.examples.stochastic_and_randomized_convex_minimization"
M = "PEPit.examples.monotone_inclusions_variational_inequalities"
FP = "PEPit.examples.fixed_point_problems"
PF = "PEPit.examples.potential_functions"
IP = "PEPit.examples.inexact_proximal_methods"
AD = "PEPit.examples.adaptive_methods"
LD = "PEPit.examples.low_dimensional_worst_cases_scenarios"
CT = "PEPit.examples.continuous_time_models"
TU = "PEPit.examples.tutorials"


def prod(**axes):
    keys = list(axes)
    return [dict(zip(keys, vals)) for vals in itertools.product(*[axes[k] for k in keys])]


def E(module, func, kind, grid, abs_tol=None, floor=2e-6):
    """floor: absolute accuracy below which a comparison says nothing (solver accuracy); 1e-4 for the two examples that
    ignore their `solver` argument and are therefore always solved with SCS at its default accuracy"""
    return dict(module=module, func=func, kind=kind, grid=grid, abs_tol=abs_tol, floor=floor)


def _gd_grid():
    out = []
    for L in (1.0, 3.0, 0.5):
        for frac in (0.5, 1.0):           # gamma in (0, 1/L]
            for n in (1, 2, 4):
                out.append(dict(L=L, gamma=frac / L, n=n))
    return out


def _mu_L_n(mus=(0.1, 0.5), Ls=(1.0, 3.0), ns=(1, 2, 3)):
    return [dict(mu=mu * L, L=L, n=n) for mu in mus for L in Ls for n in ns]


ENTRIES = {
    # ---- unconstrained convex minimization
    "gradient_descent": E(U, "wc_gradient_descent", "tight", _gd_grid()),
    "gradient_descent_quadratics": E(U, "wc_gradient_descent_quadratics", "tight",
                                     [dict(mu=mu * L, L=L, gamma=g / L, n=n) for mu in (0.1, 0.3) for L in (1.0, 3.0) for g in (0.5, 1.0) for n in (1, 2, 4)], floor=1e-4),
    "gradient_descent_qg_convex": E(U, "wc_gradient_descent_qg_convex", "tight",
                                    [dict(L=L, gamma=g / L, n=n) for L in (1.0, 2.0) for g in (0.1, 0.5) for n in (1, 2, 4)]),
    "gradient_descent_qg_convex_decreasing": E(U, "wc_gradient_descent_qg_convex_decreasing", "tight", prod(L=[1.0, 2.0], n=[1, 2, 4])),
    "subgradient_method": E(U, "wc_subgradient_method", "tight",
                            [dict(M=M_, n=n, gamma=1 / (math.sqrt(n + 1) * M_)) for M_ in (1.0, 2.0) for n in (1, 3, 6)]),
    "subgradient_method_rsi_eb": E(U, "wc_subgradient_method_rsi_eb", "tight",
                                   [dict(mu=mu, L=L, gamma=mu / L ** 2, n=n) for mu, L in ((0.1, 1.0), (0.5, 2.0)) for n in (1, 2, 4)]),
    "gradient_exact_line_search": E(U, "wc_gradient_exact_line_search", "tight", _mu_L_n(ns=(1, 2))),
    "conjugate_gradient": E(U, "wc_conjugate_gradient", "tight", prod(L=[1.0, 3.0], n=[1, 2, 3])),
    "conjugate_gradient_qg_convex": E(U, "wc_conjugate_gradient_qg_convex", "tight", prod(L=[1.0, 3.5], n=[1, 2, 4])),
    "inexact_gradient_descent": E(U, "wc_inexact_gradient_descent", "tight",
                                  [dict(L=L, mu=mu * L, epsilon=e, n=n) for L in (1.0, 3.0) for mu in (0.1,) for e in (0.1, 0.3) for n in (1, 2)]),
    "inexact_gradient_exact_line_search": E(U, "wc_inexact_gradient_exact_line_search", "tight",
                                            [dict(L=L, mu=0.1 * L, epsilon=e, n=n) for L in (1.0, 3.0) for e in (0.1, 0.3) for n in (1, 2)]),
    "proximal_point": E(U, "wc_proximal_point", "tight", prod(gamma=[0.1, 1.0, 3.0], n=[1, 2, 4])),
    "optimized_gradient": E(U, "wc_optimized_gradient", "tight", prod(L=[1.0, 3.0], n=[1, 2, 4])),
    "optimized_gradient_for_gradient": E(U, "wc_optimized_gradient_for_gradient", "tight", prod(L=[1.0, 3.0], n=[1, 2, 4])),
    "information_theoretic": E(U, "wc_information_theoretic", "tight", [dict(mu=mu, L=L, n=n) for mu, L in ((0.01, 3.0), (0.1, 1.0)) for n in (1, 2, 3)]),
    "triple_momentum": E(U, "wc_triple_momentum", "tight", _mu_L_n(mus=(0.1,), ns=(2, 4))),
    "robust_momentum": E(U, "wc_robust_momentum", "tight", [dict(mu=0.1 * L, L=L, lam=lam) for L in (1.0, 2.0) for lam in (0.2, 0.5)]),
    "accelerated_gradient_convex": E(U, "wc_accelerated_gradient_convex", "tight", [dict(mu=0, L=L, n=n) for L in (1.0, 3.0) for n in (1, 2, 5)]),
    "accelerated_gradient_strongly_convex": E(U, "wc_accelerated_gradient_strongly_convex", "upper", _mu_L_n(mus=(0.1,), ns=(1, 3))),
    "accelerated_proximal_point": E(U, "wc_accelerated_proximal_point", "upper",
                                    [dict(A0=A0, gammas=[g] * n, n=n) for A0 in (1.0, 5.0) for g in (1.0, 0.5) for n in (1, 3)]
                                    + [dict(A0=A0, gammas=gs, n=3) for A0 in (1.0, 5.0) for gs in ([3.0, 1.0, 0.3], [0.3, 1.0, 3.0])]
                                    + [dict(A0=50.0, gammas=[1.0] * 10, n=10), dict(A0=5.0, gammas=[2.0] * 12, n=12)]),
    "heavy_ball_momentum": E(U, "wc_heavy_ball_momentum", "upper",
                             [dict(mu=mu, L=L, alpha=a / L, beta=math.sqrt((1 - a / L * mu) * (1 - a)), n=n) for mu, L in ((0.1, 1.0),) for a in (0.5, 0.25) for n in (1, 3)]
                             + [dict(mu=mu, L=L, alpha=a / L, beta=math.sqrt((1 - a / L * mu) * (1 - a)), n=n)
                                for mu, L in ((0.5, 1.0), (1.0, 2.0)) for a in (0.3, 0.8) for n in (2, 8)]),
    "heavy_ball_momentum_qg_convex": E(U, "wc_heavy_ball_momentum_qg_convex", "upper", prod(L=[1.0, 2.0], n=[1, 3, 5])),
    "epsilon_subgradient_method": E(U, "wc_epsilon_subgradient_method", "upper",
                                    [dict(M=M_, n=n, gamma=1 / math.sqrt(n + 1), eps=e, R=R) for M_ in (2.0, 1.0) for n in (2, 6) for e in (2.0, 0.1) for R in (1.0,)]),
    "gradient_descent_silver_stepsize_convex": E(U, "wc_gradient_descent_silver_stepsize_convex", "upper", prod(L=[2.8, 1.0], n=[1, 2, 3, 5, 7])),
    "gradient_descent_silver_stepsize_strongly_convex": E(U, "wc_gradient_descent_silver_stepsize_strongly_convex", "tight",
                                                          [dict(L=3.2, mu=0.1, n=n) for n in (3, 7)] + [dict(L=1.0, mu=0.05, n=3)]),
    "inexact_accelerated_gradient_exact": E(U, "wc_inexact_accelerated_gradient", "tight", [dict(L=L, epsilon=0, n=n) for L in (3.0, 1.0) for n in (2, 5)], abs_tol=1e-2),
    "inexact_accelerated_gradient": E(U, "wc_inexact_accelerated_gradient", "lower", [dict(L=2.0, epsilon=e, n=n) for e in (0.01, 0.1) for n in (2, 5)]),
    # ---- composite
    "proximal_gradient": E(C, "wc_proximal_gradient", "tight", [dict(L=L, mu=0.1 * L, gamma=g / L, n=n) for L in (1.0, 2.0) for g in (1.0, 0.5) for n in (1, 2)]),
    "proximal_gradient_quadratics": E(C, "wc_proximal_gradient_quadratics", "tight", [dict(L=L, mu=0.1 * L, gamma=g / L, n=n) for L in (1.0, 2.0) for g in (1.0, 0.5) for n in (1, 2)]),
    "accelerated_proximal_gradient": E(C, "wc_accelerated_proximal_gradient", "tight", [dict(mu=0, L=L, n=n) for L in (1.0, 2.0) for n in (1, 3, 5)]),
    "bregman_proximal_point": E(C, "wc_bregman_proximal_point", "tight", prod(gamma=[3.0, 1.0], n=[1, 3, 5])),
    "frank_wolfe": E(C, "wc_frank_wolfe", "upper", prod(L=[1.0, 2.0], D=[1.0, 2.0], n=[1, 4])),
    "douglas_rachford_splitting": E(C, "wc_douglas_rachford_splitting", "tight", prod(L=[1.0], alpha=[1.0], theta=[1.0], n=[2, 5, 10])),
    "douglas_rachford_splitting_contraction": E(C, "wc_douglas_rachford_splitting_contraction", "tight",
                                                [dict(mu=mu, L=L, alpha=a, theta=1.0, n=n) for mu, L in ((0.1, 1.0), (0.5, 2.0)) for a in (3.0, 1.0) for n in (1, 2)]),
    "improved_interior_algorithm": E(C, "wc_improved_interior_algorithm", "upper", [dict(L=1.0, mu=1.0, c=1.0, lam=1.0, n=n) for n in (1, 3, 5)]),
    "no_lips_in_bregman_divergence": E(C, "wc_no_lips_in_bregman_divergence", "tight", [dict(L=L, gamma=1 / L, n=n) for L in (0.1, 1.0) for n in (2, 3, 5)]),      # the documented rate 2/(n(n-1)) needs n >= 2
    "no_lips_in_function_value": E(C, "wc_no_lips_in_function_value", "tight", [dict(L=L, gamma=g / L, n=n) for L in (1.0, 2.0) for g in (0.5, 1.0) for n in (1, 3)]),
    # ---- nonconvex
    "gradient_descent_non_convex": E(N, "wc_gradient_descent", "tight", [dict(L=L, gamma=1 / L, n=n) for L in (1.0, 2.0, 4.0) for n in (1, 3, 5)]),
    "no_lips_1": E(N, "wc_no_lips_1", "tight", [dict(L=L, gamma=g / L, n=n) for L in (1.0, 2.0) for g in (0.5,) for n in (1, 3, 5)]),
    "no_lips_2": E(N, "wc_no_lips_2", "tight", [dict(L=L, gamma=1 / L, n=n) for L in (1.0, 2.0) for n in (1, 3)]),
    # ---- stochastic
    "saga": E(S, "wc_saga", "tight", [dict(L=1.0, mu=0.1, n=n) for n in (2, 5)] + [dict(L=2.0, mu=0.5, n=3)]),
    "sgd": E(S, "wc_sgd", "tight", [dict(L=L, mu=mu, gamma=1 / L, v=v, R=R, n=n) for L, mu in ((1.0, 0.1), (2.0, 0.5)) for v in (1.0, 2.0, 0.5) for R in (2.0, 1.0) for n in (2, 5)]),
    "sgd_overparametrized": E(S, "wc_sgd_overparametrized", "tight", [dict(L=L, mu=0.1 * L, gamma=1 / L, n=n) for L in (1.0, 2.0) for n in (2, 5)]),
    "point_saga": E(S, "wc_point_saga", "upper", [dict(L=1.0, mu=0.1, n=n) for n in (2, 5, 10)]),
    "randomized_coordinate_descent_smooth_convex": E(S, "wc_randomized_coordinate_descent_smooth_convex", "tight",
                                                     [dict(L=L, gamma=1 / L, d=d, t=t) for L in (1.0, 2.0) for d in (2, 3) for t in (3, 10)]),
    "randomized_coordinate_descent_smooth_strongly_convex": E(S, "wc_randomized_coordinate_descent_smooth_strongly_convex", "tight",
                                                              [dict(L=L, mu=0.1 * L, gamma=2 / (L + 0.1 * L), d=d) for L in (1.0, 2.0) for d in (2, 3)]),
    # ---- monotone inclusions
    "accelerated_proximal_point_operators": E(M, "wc_accelerated_proximal_point", "tight", prod(alpha=[2.1, 1.0], n=[2, 5, 10])),
    "proximal_point_operators": E(M, "wc_proximal_point", "tight", prod(alpha=[2.1, 1.0], n=[2, 3, 6])),
    "optimal_strongly_monotone_proximal_point": E(M, "wc_optimal_strongly_monotone_proximal_point", "tight", prod(n=[2, 3, 5], mu=[0.23, 0.05])),
    "douglas_rachford_splitting_operators": E(M, "wc_douglas_rachford_splitting", "tight", [dict(L=L, mu=mu, alpha=a, theta=t) for L, mu in ((1.0, 0.1), (2.0, 0.1), (0.5, 1.0)) for a in (1.3, 1.0) for t in (0.9, 1.5)]),
    "optimistic_gradient": E(M, "wc_optimistic_gradient", "none", [dict(n=n, gamma=g / L, L=L) for L in (1.0, 2.0) for g in (0.25,) for n in (1, 3, 5)]),
    "past_extragradient": E(M, "wc_past_extragradient", "none", [dict(n=n, gamma=g / L, L=L) for L in (1.0, 2.0) for g in (0.25,) for n in (1, 3, 5)]),
    # ---- fixed point
    "halpern_iteration": E(FP, "wc_halpern_iteration", "tight", prod(n=[1, 3, 10])),
    "krasnoselskii_mann_constant_step_sizes": E(FP, "wc_krasnoselskii_mann_constant_step_sizes", "tight", prod(n=[3, 10], gamma=[0.75, 0.6])),
    "optimal_contractive_halpern_iteration": E(FP, "wc_optimal_contractive_halpern_iteration", "tight", prod(n=[1, 3, 5], gamma=[1.13, 1.5])),
    "inconsistent_halpern_iteration": E(FP, "wc_inconsistent_halpern_iteration", "upper", prod(n=[1, 2, 3, 4, 5, 25])),
    # ---- potential functions / adaptive (absolute precision in the tests)
    "gradient_descent_lyapunov_1": E(PF, "wc_gradient_descent_lyapunov_1", "tight", [dict(L=L, gamma=1 / L, n=n) for L in (1.0, 2.0) for n in (1, 10)], abs_tol=5e-5),
    "gradient_descent_lyapunov_2": E(PF, "wc_gradient_descent_lyapunov_2", "tight", [dict(L=L, gamma=1 / L, n=n) for L in (1.0, 2.0) for n in (1, 10)], abs_tol=5e-5),
    "accelerated_gradient_method_potential": E(PF, "wc_accelerated_gradient_method", "tight", [dict(L=L, gamma=1 / L, lam=lam) for L in (1.0, 2.0) for lam in (10.0, 1.0)], abs_tol=5e-5),
    "polyak_steps_in_distance_to_optimum": E(AD, "wc_polyak_steps_in_distance_to_optimum", "tight",
                                              [dict(L=L, mu=0.1 * L, gamma=g / L) for L in (1.0, 2.0, 0.5) for g in (1.0, 1.3, 2.0, 5.0, 10.0)], abs_tol=5e-5),
    "polyak_steps_in_function_value": E(AD, "wc_polyak_steps_in_function_value", "tight",
                                         [dict(L=L, mu=0.1 * L, gamma=g / L) for L in (1.0, 2.0, 0.5) for g in (1.0, 1.3, 1.6, 1.9, 2.0)], abs_tol=5e-5),
    # ---- inexact proximal
    "accelerated_inexact_forward_backward": E(IP, "wc_accelerated_inexact_forward_backward", "upper", [dict(L=L, zeta=z, n=n) for L in (10.0, 1.0) for z in (0.87, 0.5) for n in (2, 5)]),
    "partially_inexact_douglas_rachford_splitting": E(IP, "wc_partially_inexact_douglas_rachford_splitting", "tight",
                                                      [dict(mu=mu, L=L, n=n, gamma=g, sigma=s) for mu, L, g in ((1.0, 5.0, 1.4), (0.5, 2.0, 1.0)) for n in (1, 3, 5) for s in (0.2, 0.1)]),
    "relatively_inexact_proximal_point_algorithm": E(IP, "wc_relatively_inexact_proximal_point_algorithm", "upper", [dict(n=n, gamma=g, sigma=s) for n in (2, 5) for g in (2.0, 1.0) for s in (0.3, 0.1)]),
    # ---- tutorials / continuous time / low dimensional
    "gradient_descent_contraction": E(TU, "wc_gradient_descent_contraction", "tight", [dict(L=L, mu=0.1 * L, gamma=g / L, n=n) for L in (1.0, 2.0) for g in (1.0, 0.5) for n in (1, 2)]),
    "gradient_flow_convex": E(CT, "wc_gradient_flow_convex", "tight", prod(t=[1.0, 2.5, 5.0])),
    "gradient_flow_strongly_convex": E(CT, "wc_gradient_flow_strongly_convex", "tight", prod(mu=[0.1, 0.8, 2.0])),
    "accelerated_gradient_flow_convex": E(CT, "wc_accelerated_gradient_flow_convex", "tight", prod(t=[1.0, 3.4])),
    "accelerated_gradient_flow_strongly_convex": E(CT, "wc_accelerated_gradient_flow_strongly_convex", "tight", [dict(mu=mu, psd=psd) for mu in (0.1, 2.1) for psd in (True, False)]),
    "proximal_point_low_dim": E(LD, "wc_proximal_point", "tight", prod(alpha=[2.2, 1.0], n=[2, 5])),
    "halpern_iteration_low_dim": E(LD, "wc_halpern_iteration", "tight", prod(n=[2, 5]), abs_tol=None),
    "gradient_descent_low_dim": E(LD, "wc_gradient_descent", "tight", [dict(L=L, gamma=1 / L, n=n) for L in (1.0, 2.0) for n in (1, 3)]),
    "optimized_gradient_low_dim": E(LD, "wc_optimized_gradient", "tight", prod(L=[3.0, 1.0], n=[1, 3])),
    "inexact_gradient_low_dim": E(LD, "wc_inexact_gradient", "tight", [dict(L=L, mu=mu, epsilon=e, n=n) for L, mu, e in ((3.0, 0.1, 0.1), (1.0, 0.2, 0.3)) for n in (1, 2)]),
    "frank_wolfe_low_dim": E(LD, "wc_frank_wolfe", "upper", prod(L=[1.0], D=[1.0], n=[2, 5])),
    # no documented closed form: the returned number is still a bound (C09)
    "averaged_projections": E(LD, "wc_averaged_projections", "upper", prod(n=[1, 2, 5])),
    "alternate_projections": E(LD, "wc_alternate_projections", "upper", prod(n=[1, 2, 5])),
    "three_operator_splitting": E(M, "wc_three_operator_splitting", "upper",
                                  [dict(L=1.0, mu=0.1, beta=b, alpha=a, theta=t) for b in (1.0, 0.1) for a in (0.9, 1.3) for t in (0.9, 1.5)]),
}


# ---------------------------------------------------------------------------------------------------------------------
# thorough tier: denser grids inside the same documented ranges (more values per parameter, more iteration counts)
# ---------------------------------------------------------------------------------------------------------------------
def _ext(name, grid):
    base = ENTRIES[name]["grid"]
    out = [kw for kw in grid if kw not in base]
    return out


EXTRA = {
    "gradient_descent": [dict(L=L, gamma=f / L, n=n) for L in (0.5, 1.0, 2.0, 3.0, 10.0) for f in (0.1, 0.25, 0.5, 0.75, 1.0) for n in (1, 2, 3, 4, 6, 8)],
    "gradient_descent_contraction": [dict(L=L, mu=m * L, gamma=f / L, n=n) for L in (1.0, 2.0, 5.0) for m in (0.05, 0.1, 0.5) for f in (0.25, 0.5, 1.0, 1.5, 1.9) for n in (1, 2, 3)],
    "gradient_descent_quadratics": [dict(mu=m * L, L=L, gamma=f / L, n=n) for L in (1.0, 3.0) for m in (0.05, 0.1, 0.3, 0.6) for f in (0.25, 0.5, 1.0) for n in (1, 2, 3, 5)],
    "gradient_descent_qg_convex": [dict(L=L, gamma=f / L, n=n) for L in (1.0, 2.0, 3.0) for f in (0.05, 0.1, 0.3, 0.5, 1.0) for n in (1, 2, 3, 5)],
    "gradient_descent_qg_convex_decreasing": prod(L=[0.5, 1.0, 2.0, 5.0], n=[1, 2, 3, 4, 6]),
    "subgradient_method": [dict(M=M_, n=n, gamma=1 / (math.sqrt(n + 1) * M_)) for M_ in (0.5, 1.0, 2.0, 4.0) for n in (1, 2, 3, 5, 8)],
    "subgradient_method_rsi_eb": [dict(mu=mu, L=L, gamma=mu / L ** 2, n=n) for mu, L in ((0.1, 1.0), (0.5, 2.0), (0.3, 1.0), (1.0, 3.0)) for n in (1, 2, 3, 5)],
    "gradient_exact_line_search": _mu_L_n(mus=(0.05, 0.1, 0.3, 0.5), Ls=(1.0, 2.0, 3.0), ns=(1, 2, 3)),
    "conjugate_gradient": prod(L=[0.5, 1.0, 3.0], n=[1, 2, 3, 4]),
    "conjugate_gradient_qg_convex": prod(L=[0.5, 1.0, 3.5], n=[1, 2, 3, 5, 8]),
    "inexact_gradient_descent": [dict(L=L, mu=m * L, epsilon=e, n=n) for L in (1.0, 3.0) for m in (0.05, 0.1, 0.3) for e in (0.05, 0.1, 0.3, 0.5) for n in (1, 2, 3)],
    "inexact_gradient_exact_line_search": [dict(L=L, mu=m * L, epsilon=e, n=n) for L in (1.0, 3.0) for m in (0.1, 0.3) for e in (0.05, 0.1, 0.3) for n in (1, 2, 3)],
    "proximal_point": prod(gamma=[0.05, 0.1, 0.5, 1.0, 3.0, 10.0], n=[1, 2, 3, 5, 8]),
    "optimized_gradient": prod(L=[0.5, 1.0, 3.0], n=[1, 2, 3, 4, 6]),
    "optimized_gradient_for_gradient": prod(L=[0.5, 1.0, 3.0], n=[1, 2, 3, 4, 6]),
    "information_theoretic": [dict(mu=mu, L=L, n=n) for mu, L in ((0.01, 3.0), (0.1, 1.0), (0.3, 1.0), (0.5, 2.0)) for n in (1, 2, 3, 4)],
    "triple_momentum": _mu_L_n(mus=(0.05, 0.1, 0.3), Ls=(1.0, 2.0), ns=(1, 2, 3, 4, 6)),
    "robust_momentum": [dict(mu=m * L, L=L, lam=lam) for L in (1.0, 2.0) for m in (0.05, 0.1, 0.3) for lam in (0.1, 0.2, 0.5, 0.8)],
    "accelerated_gradient_convex": [dict(mu=0, L=L, n=n) for L in (0.5, 1.0, 3.0) for n in (1, 2, 3, 5, 8)],
    "accelerated_gradient_strongly_convex": _mu_L_n(mus=(0.05, 0.1, 0.3), Ls=(1.0, 2.0), ns=(1, 2, 3, 5)),
    "heavy_ball_momentum_qg_convex": prod(L=[0.5, 1.0, 2.0], n=[1, 2, 3, 5, 8]),
    "proximal_gradient": [dict(L=L, mu=m * L, gamma=f / L, n=n) for L in (1.0, 2.0) for m in (0.05, 0.1, 0.5) for f in (0.5, 1.0, 1.5, 1.9) for n in (1, 2, 3)],
    "proximal_gradient_quadratics": [dict(L=L, mu=m * L, gamma=f / L, n=n) for L in (1.0, 2.0) for m in (0.1, 0.5) for f in (0.5, 1.0) for n in (1, 2, 3)],
    "accelerated_proximal_gradient": [dict(mu=0, L=L, n=n) for L in (0.5, 1.0, 2.0) for n in (1, 2, 3, 5, 8)],
    "bregman_proximal_point": prod(gamma=[0.5, 1.0, 3.0, 10.0], n=[1, 2, 3, 5, 8]),
    "frank_wolfe": prod(L=[0.5, 1.0, 2.0], D=[0.5, 1.0, 2.0], n=[1, 2, 4, 8]),
    "douglas_rachford_splitting_contraction": [dict(mu=m, L=1.0, alpha=a, theta=1.0, n=n) for m in (0.05, 0.1, 0.5) for a in (0.5, 1.0, 3.0) for n in (1, 2, 3)],
    "no_lips_in_bregman_divergence": [dict(L=L, gamma=1 / L, n=n) for L in (0.1, 0.5, 1.0, 2.0) for n in (2, 3, 4, 6)],
    "no_lips_in_function_value": [dict(L=L, gamma=f / L, n=n) for L in (0.5, 1.0, 2.0) for f in (0.25, 0.5, 1.0) for n in (1, 2, 3, 5)],
    "gradient_descent_non_convex": [dict(L=L, gamma=1 / L, n=n) for L in (0.5, 1.0, 2.0, 4.0, 10.0) for n in (1, 2, 3, 5, 8)],
    "no_lips_1": [dict(L=L, gamma=f / L, n=n) for L in (0.5, 1.0, 2.0) for f in (0.25, 0.5, 0.75) for n in (1, 2, 3, 5)],      # the documented rate has a factor 1/(1 - L gamma): gamma < 1/L
    "no_lips_2": [dict(L=L, gamma=1 / L, n=n) for L in (0.5, 1.0, 2.0) for n in (1, 2, 3, 5)],
    "sgd": [dict(L=L, mu=m * L, gamma=1 / L, v=v_, R=R, n=n) for L in (1.0, 2.0) for m in (0.1, 0.5) for v_ in (0.5, 1.0, 2.0, 3.0) for R in (1.0, 2.0) for n in (2, 3, 5)],
    "sgd_overparametrized": [dict(L=L, mu=m * L, gamma=1 / L, n=n) for L in (1.0, 2.0) for m in (0.05, 0.1, 0.5) for n in (2, 3, 5)],
    "saga": [dict(L=L, mu=m * L, n=n) for L in (1.0, 2.0) for m in (0.1, 0.25) for n in (2, 3, 5)],
    "randomized_coordinate_descent_smooth_convex": [dict(L=L, gamma=1 / L, d=d, t=t) for L in (0.5, 1.0, 2.0) for d in (2, 3, 4) for t in (1, 3, 10)],
    "accelerated_proximal_point_operators": prod(alpha=[0.5, 1.0, 2.1, 5.0], n=[2, 3, 5, 8]),
    "proximal_point_operators": prod(alpha=[0.5, 1.0, 2.1, 5.0], n=[2, 3, 4, 6]),
    "optimal_strongly_monotone_proximal_point": prod(n=[1, 2, 3, 5], mu=[0.05, 0.23, 0.5, 1.0]),
    "halpern_iteration": prod(n=[1, 2, 3, 5, 8]),
    "krasnoselskii_mann_constant_step_sizes": prod(n=[1, 2, 3, 5, 8], gamma=[0.5, 0.6, 0.75, 0.9, 1.0]),
    "optimal_contractive_halpern_iteration": prod(n=[1, 2, 3, 5], gamma=[1.05, 1.13, 1.5, 2.0]),
    "gradient_flow_convex": prod(t=[0.5, 1.0, 2.5, 5.0, 10.0]),
    "gradient_flow_strongly_convex": prod(mu=[0.05, 0.1, 0.8, 2.0]),
    "proximal_point_low_dim": prod(alpha=[0.5, 1.0, 2.2], n=[2, 3, 5]),
}
for _k in list(EXTRA):
    EXTRA[_k] = _ext(_k, EXTRA[_k])


def grid(name, tier):
    return ENTRIES[name]["grid"] + (EXTRA.get(name, []) if tier == "thorough" else [])


# ---- closed forms transcribed from the docstrings (independent of the value the example itself returns) -----------------

def _ogm(kw):
    th = 1.0
    for t in range(1, kw["n"] + 1):
        th = (1 + math.sqrt(4 * th ** 2 + 1)) / 2 if t < kw["n"] else (1 + math.sqrt(8 * th ** 2 + 1)) / 2
    return kw["L"] / (2 * th ** 2)


def _robust(kw):
    kappa = kw["L"] / kw["mu"]
    rho = kw["lam"] * (1 - 1 / kappa) + (1 - kw["lam"]) * (1 - 1 / math.sqrt(kappa))
    return rho ** 2


DOC = {
    "gradient_descent": lambda kw: kw["L"] / (4 * kw["n"] * kw["L"] * kw["gamma"] + 2),
    "gradient_descent_contraction": lambda kw: max((1 - kw["L"] * kw["gamma"]) ** 2, (1 - kw["mu"] * kw["gamma"]) ** 2) ** kw["n"],
    "proximal_point": lambda kw: 1 / (4 * kw["gamma"] * kw["n"]),
    "optimized_gradient": _ogm,
    "robust_momentum": _robust,
    "heavy_ball_momentum": lambda kw: (1 - kw["alpha"] * kw["mu"]) ** kw["n"],
    "accelerated_gradient_convex": lambda kw: 2 * kw["L"] / (kw["n"] ** 2 + 5 * kw["n"] + 6) if kw.get("mu", 0) == 0 else None,
}
