"""Driving PEP.solve under a configuration (back-end, solver, mode, dimension reduction, verbosity) with the MOSEK
stand-in enabled only for MOSEK-path solves."""
import contextlib
import io
import os
import sys

STANDIN_PARENT = os.path.join(os.path.dirname(os.path.abspath(__file__)), "mosek_standin")


def enable_standin():
    import cvxpy  # noqa: F401  (cvxpy fixes its list of installed solvers at import: import it before the stand-in exists)
    import logging
    logging.getLogger("__cvxpy__").setLevel(logging.ERROR)   # cvxpy logs that its own MOSEK interface cannot use the stand-in
    if STANDIN_PARENT not in sys.path:
        sys.path.insert(0, STANDIN_PARENT)
    import mosek
    assert getattr(mosek, "IS_STANDIN", False), "a real mosek package shadows the stand-in"
    return mosek


def disable_standin():
    if STANDIN_PARENT in sys.path:
        sys.path.remove(STANDIN_PARENT)
    sys.modules.pop("mosek", None)
    import importlib
    importlib.invalidate_caches()


@contextlib.contextmanager
def standin():
    m = enable_standin()
    try:
        yield m
    finally:
        disable_standin()


@contextlib.contextmanager
def _fd_capture(active):
    """OS-level capture of fd 1 and 2 (solver / cvxpy logging bypasses sys.stdout)."""
    box = {}
    if not active:
        yield box
        return
    import tempfile
    sys.stdout.flush(); sys.stderr.flush()
    with tempfile.TemporaryFile(mode="w+b") as tmp:
        saved = os.dup(1), os.dup(2)
        try:
            os.dup2(tmp.fileno(), 1); os.dup2(tmp.fileno(), 2)
            yield box
        finally:
            sys.stdout.flush(); sys.stderr.flush()
            os.dup2(saved[0], 1); os.dup2(saved[1], 2)
            os.close(saved[0]); os.close(saved[1])
            tmp.seek(0)
            box["text"] = tmp.read().decode("utf-8", "replace")


def solve(pep, backend="cvxpy", solver="CLARABEL", mode="dual", dr=None, verbose=0, tol_dr=None, reg=None,
          extra=None):
    """Returns dict(value, exc, status, stdout, task).  `solver=None` exercises the library's default path (SCS)."""
    kw = dict(extra or {})
    if solver is not None:
        kw["solver"] = solver
    if tol_dr is not None:
        kw["tol_dimension_reduction"] = tol_dr
    if reg is not None:
        kw["eig_regularization"] = reg
    out = dict(value=None, exc=None, status=None, stdout="", task=None, wrapper_name=None, statuses=[])
    buf = io.StringIO()
    # the status of EVERY solver call of this solve (the multipliers come from the first one, the instance from the last one)
    from PEPit.wrappers.cvxpy_wrapper import CvxpyWrapper as _CW
    from PEPit.wrappers.mosek_wrapper import MosekWrapper as _MW
    _orig = {}

    def _wrap(cls):
        orig = cls.solve
        _orig[cls] = orig

        def solve_and_note(self, *a, **k):
            res = orig(self, *a, **k)
            try:
                st = res[0]
                if cls is _MW:      # the stand-in keeps the solver status of the latest optimize() in its solution record
                    st = (getattr(self.task, "sol", None) or {}).get("status")
                out["statuses"].append(st)
            except Exception:
                pass
            return res
        cls.solve = solve_and_note
    _wrap(_CW)
    _wrap(_MW)
    try:
        with contextlib.redirect_stdout(buf), _fd_capture(verbose >= 2) as fdcap:
            if backend == "mosek":
                with standin() as m:
                    m.LOG[:] = []
                    kw.pop("solver", None)
                    out["value"] = pep.solve(wrapper="mosek", return_primal_or_dual=mode, verbose=verbose,
                                             dimension_reduction_heuristic=dr, **kw)
                    out["task"] = getattr(pep.wrapper, "task", None)
                    out["log"] = list(m.LOG)
            else:
                out["value"] = pep.solve(wrapper="cvxpy", return_primal_or_dual=mode, verbose=verbose,
                                         dimension_reduction_heuristic=dr, **kw)
    except Exception as e:  # the caller decides what an exception means for its property
        out["exc"] = e
    finally:
        for cls_, orig_ in _orig.items():
            cls_.solve = orig_
    out["first_status"] = out["statuses"][0] if out["statuses"] else None
    out["stdout"] = buf.getvalue() + fdcap.get("text", "")
    out["wrapper_name"] = pep.wrapper_name
    w = pep.wrapper
    try:
        if backend == "mosek" and out["task"] is not None and out["task"].sol is not None:
            out["status"] = out["task"].sol.get("status")
        elif w is not None and getattr(w, "prob", None) is not None:
            out["status"] = w.prob.status
    except Exception:
        pass
    return out


def tolerance(backend, solver):
    """Relative tolerance on certificate / instance residuals, calibrated on the unchanged tree and frozen
    (CLARABEL: residuals <= 5e-8 observed; SCS default settings: <= 2e-4 observed)."""
    if solver is None or solver == "SCS":
        return 5e-3
    return 2e-6
