"""Shared driver of the solve-based checks C01 / C02 (and reused by C11, C14): build a grammar model, solve it under
one configuration, judge the certificate and the instance."""
import itertools

import numpy as np

from mc import models, solving, certificate as CERT, recording as REC
from mc import refalg as R

CONFIGS = {
    # name: dict(backend, solver, mode, dr, verbose)
    "cvx-clarabel-dual": dict(backend="cvxpy", solver="CLARABEL", mode="dual", dr=None, verbose=0),
    "cvx-clarabel-primal": dict(backend="cvxpy", solver="CLARABEL", mode="primal", dr=None, verbose=0),
    "msk-dual": dict(backend="mosek", solver=None, mode="dual", dr=None, verbose=0),
    "msk-primal": dict(backend="mosek", solver=None, mode="primal", dr=None, verbose=0),
    "cvx-default-dual": dict(backend="cvxpy", solver=None, mode="dual", dr=None, verbose=0),      # SCS, default settings
    "cvx-clarabel-trace": dict(backend="cvxpy", solver="CLARABEL", mode="dual", dr="trace", verbose=0),
    "msk-trace": dict(backend="mosek", solver=None, mode="dual", dr="trace", verbose=0),
    "cvx-clarabel-logdet1": dict(backend="cvxpy", solver="CLARABEL", mode="dual", dr="logdet1", verbose=0),
    "cvx-clarabel-v1": dict(backend="cvxpy", solver="CLARABEL", mode="dual", dr=None, verbose=1),
    "cvx-clarabel-v2": dict(backend="cvxpy", solver="CLARABEL", mode="dual", dr=None, verbose=2),
    "msk-v1": dict(backend="mosek", solver=None, mode="dual", dr=None, verbose=1),
}


def held_objects(ctx):
    out = []
    for k, v in ctx.points.items():
        if v is not None:
            out.append(("point:" + k, v))
    for k, v in ctx.exprs.items():
        if isinstance(v, list):
            out += [("expr:%s[%d]" % (k, i), b) for i, b in enumerate(v)]
        elif v is not None:
            out.append(("expr:" + k, v))
    for k, v in ctx.constraints.items():
        if v is not None:
            out.append(("constraint:" + k, v))
    for k, v in ctx.lmis.items():
        if not k.startswith("_"):
            out.append(("lmi:" + k, v))
    return out


def post_solve_objects(ctx, depth=2):
    """Every object obtained from the held points / expressions by <= `depth` DSL operations *after* the solve."""
    from PEPit import PSDMatrix
    pts = [(k, v) for k, v in ctx.points.items() if v is not None][:4]
    exs = [(k, v) for k, v in ctx.exprs.items() if v is not None and not isinstance(v, list)][:3]
    level_p, level_e = list(pts), list(exs)
    out = []
    for d in range(depth):
        new_p, new_e = [], []
        src_p = level_p if d == 0 else level_p[:6]
        for (ka, a), (kb, b) in itertools.product(src_p, pts):
            new_p.append(("(%s+%s)" % (ka, kb), a + b))
            new_p.append(("(%s-%s)" % (ka, kb), a - b))
            new_e.append(("<%s,%s>" % (ka, kb), a * b))
        for ka, a in src_p:
            new_p.append(("(2*%s)" % ka, 2 * a))
            new_p.append(("(%s/4)" % ka, a / 4))
            new_e.append(("|%s|^2" % ka, a ** 2))
        src_e = level_e if d == 0 else level_e[:6]
        for (ka, a), (kb, b) in itertools.product(src_e, exs):
            new_e.append(("(%s+%s)" % (ka, kb), a + b))
            new_e.append(("(%s-%s)" % (ka, kb), a - b))
        for ka, a in src_e:
            new_e.append(("(-3*%s)" % ka, -3 * a))
            new_e.append(("(%s+0.5)" % ka, a + 0.5))
            out.append(("[%s<=1]" % ka, a <= 1))
        out += new_p + new_e
        level_p, level_e = new_p, new_e
    if len(level_e) >= 3:
        e = [v for _, v in level_e[:3]]
        out.append(("PSD[new]", PSDMatrix([[e[0], e[1]], [e[1], e[2]]])))
    return out


def run(spec, cfgname, post_depth=0):
    """Solve one model under one configuration.  Returns dict(status, value, c01=[(key,msg)], c02=[(key,msg)], info)."""
    cfg = CONFIGS[cfgname]
    res = dict(c01=[], c02=[], outcome=None, value=None)
    try:
        ctx = models.build(spec)
    except Exception as e:
        res["outcome"] = "build-raised"
        res["c01"].append(("build-raised", "building the model raised %s: %s" % (type(e).__name__, e)))
        res["c02"].append(("build-raised", "building the model raised %s: %s" % (type(e).__name__, e)))
        return res
    # objects created before the solve and never sent
    unused = [("pre:unused_pt", 2 * ctx.points["x0"] - ctx.points["xn"]), ("pre:unused_ex", ctx.exprs["d0"] - 2 * ctx.exprs["dn"] + 1)]
    with REC.recording():
        r = solving.solve(ctx.pep, backend=cfg["backend"], solver=cfg["solver"], mode=cfg["mode"], dr=cfg["dr"],
                          verbose=cfg["verbose"])
    pep = ctx.pep
    be = cfg["backend"]
    if r["exc"] is not None:
        e = r["exc"]
        res["outcome"] = "solve-raised:" + type(e).__name__
        name = type(e).__name__
        if name in ("SolverError",):
            res["outcome"] = "solver-error"
            return res
        msg = "solve raised %s: %s" % (name, str(e)[:200])
        res["c01"].append(("solve-raised:%s:%s" % (be, name), msg))
        res["c02"].append(("solve-raised:%s:%s" % (be, name), msg))
        return res
    val = r["value"]
    status = r["status"]
    if val is None:
        res["outcome"] = "no-value:%s" % status
        return res
    if status not in ("optimal",) or r.get("first_status") not in (None, "optimal"):
        # (with a heuristic the multipliers are those of the FIRST solver call: it must have been accurate as well)
        res["outcome"] = "not-judged:%s" % (status if status != "optimal" else "first-solve-" + str(r.get("first_status")))
        return res
    res["value"] = float(val)
    tol = solving.tolerance(be, cfg["solver"])
    # ------------------------------------------------------------------ C01
    try:
        # one multiplier per constraint / LMI
        for con in pep._list_of_constraints_sent_to_wrapper:
            lam = con.eval_dual()
            if not np.isscalar(lam) and np.ndim(lam) != 0:
                res["c01"].append(("cert:multiplier-shape:%s" % be, "the multiplier of a scalar constraint is not a scalar"))
                break
        for M in pep._list_of_psd_sent_to_wrapper:
            S = np.asarray(M.eval_dual())
            if S.shape != tuple(M.shape):
                res["c01"].append(("cert:multiplier-shape:%s" % be, "the multiplier of an LMI has shape %s, LMI %s" % (S.shape, M.shape)))
        # the list of constraints is the list of objects actually SENT (recorded by the wrapper subclass), not the
        # library's own tracking list; the two must agree
        calls = getattr(pep.wrapper, "rec_calls", None)
        sent_c = [c[1] for c in calls if c[0] == "scalar"] if calls is not None else None
        sent_m = [c[1] for c in calls if c[0] == "lmi"] if calls is not None else None
        if calls is not None and ([id(x) for x in sent_c] != [id(x) for x in pep._list_of_constraints_sent_to_wrapper]
                                  or [id(x) for x in sent_m] != [id(x) for x in pep._list_of_psd_sent_to_wrapper]):
            res["c01"].append(("cert:sent-list-mismatch:%s" % be, "the constraints the problem reports as sent (%d scalar, %d LMI) "
                               "are not the ones that were sent (%d scalar, %d LMI)"
                               % (len(pep._list_of_constraints_sent_to_wrapper), len(pep._list_of_psd_sent_to_wrapper),
                                  len(sent_c), len(sent_m))))
        cert = CERT.certificate(pep, constraints=sent_c, psds=sent_m)
        sc = cert["scale"]
        if cert["resid"] > tol * sc:
            if cert["asym_pairs"] > 0 and cert["resid_after_asym"] <= tol * sc:
                res["c01"].append(("cert:lmi-not-symmetric-as-written:%s" % be,
                                   "identity fails by %.2e (scale %.2e) but closes (%.1e) once antisymmetric corrections "
                                   "are allowed on the %d LMI entry pairs written differently"
                                   % (cert["resid"], sc, cert["resid_after_asym"], cert["asym_pairs"])))
            else:
                res["c01"].append(("cert:identity:%s" % be, "sum of multipliers x constraints does not reproduce "
                                   "objective - tau: largest non-constant coefficient %.2e (scale %.2e)" % (cert["resid"], sc)))
        if cert["lam_min"] < -tol * max(1.0, sc):
            res["c01"].append(("cert:negative-multiplier:%s" % be, "an inequality multiplier is %.2e" % cert["lam_min"]))
        if cert["psd_min"] < -tol * max(1.0, sc):
            res["c01"].append(("cert:not-psd:%s" % be, "residual / LMI multiplier has eigenvalue %.2e" % cert["psd_min"]))
        dual_value = cert["const"]
        # at an `optimal` solve the solver's own duality gap is within its tolerance: a certificate whose constant is far
        # from the optimal value is not the solver's certificate (its multipliers were altered on the way), whatever the
        # scale the altered multipliers suggest
        try:
            primal_now = float(pep.objective.eval())
            # (measured on the unchanged tree, accurate solver, status `optimal`: the gap never exceeds 8e-8 over the whole grammar)
            gaptol = 2.5 * tol if tol <= 2e-6 else 50 * tol
            if not cfg["dr"] and abs(dual_value - primal_now) > gaptol * max(1.0, abs(primal_now)):
                res["c01"].append(("cert:constant-far-from-optimum:%s" % be, "the identity's constant %.8g is not the optimal value %.8g"
                                   % (dual_value, primal_now)))
        except Exception:
            pass
        if cfg["mode"] == "dual" and not (cert["resid"] > tol * sc):
            if abs(val - dual_value) > 1e-9 * max(1.0, abs(dual_value)):
                res["c01"].append(("cert:value-not-constant:%s" % be, "returned %.10g but the identity's constant is %.10g" % (val, dual_value)))
        res["cert"] = dict(resid=cert["resid"], scale=sc, asym=cert["asym_pairs"])
    except Exception as e:
        res["c01"].append(("cert:raised:%s:%s" % (be, type(e).__name__), "reading the multipliers raised %s: %s" % (type(e).__name__, str(e)[:200])))
        dual_value = None
    # ------------------------------------------------------------------ C02
    try:
        held = held_objects(ctx) + unused
        if post_depth:
            held += post_solve_objects(ctx, post_depth)
        sG = sF = None
        try:
            if be == "cvxpy":
                sG, sF = pep.wrapper.G.value, pep.wrapper.F.value
            else:
                sol = pep.wrapper.task.sol
                sG, sF = sol["barx"][0], sol["xx"]
        except Exception:
            pass
        res["c02"] += [(k + ":" + be, m) for k, m in CERT.instance(pep, held=held, tol=tol, solver_G=sG, solver_F=sF)]
        primal = float(pep.objective.eval())
        if cfg["mode"] == "primal" and abs(primal - val) > 1e-9 * max(1, abs(val)) and not cfg["dr"]:
            res["c02"].append(("instance:primal-value:%s" % be, "primal mode returned %.10g, objective evaluates to %.10g" % (val, primal)))
        if dual_value is not None and primal > dual_value + 50 * tol * max(1.0, abs(dual_value)) \
                and not (res["c01"] and res.get("cert", {}).get("asym", 0) > 0):
            # (a certificate that is incomplete for the recorded reason - mirrored LMI entries written differently - has no
            #  meaningful constant; any OTHER certificate defect does not excuse a primal value above the dual bound)
            res["c02"].append(("instance:primal-exceeds-dual:%s" % be, "primal %.8g > dual %.8g" % (primal, dual_value)))
        res["held"] = len(held)
    except Exception as e:
        res["c02"].append(("instance:raised:%s:%s" % (be, type(e).__name__), "evaluating the instance raised %s: %s" % (type(e).__name__, str(e)[:200])))
    res["outcome"] = "judged"
    res["stdout_len"] = len(r["stdout"])
    if be == "mosek" and (res["c01"] or res["c02"]):
        # explanation predicate of the known MOSEK-path finding: the MOSEK back-end returns a number for a model without
        # finite optimum (and then goes on, e.g. into a heuristic re-solve).  Matched only if the cvxpy back-end reports the
        # same model unbounded / infeasible.
        try:
            ref = models.build(spec)
            rr = solving.solve(ref.pep, backend="cvxpy", solver="CLARABEL")
            if rr["exc"] is None and rr["value"] is None and rr["status"] in ("unbounded", "infeasible", "unbounded_inaccurate", "infeasible_inaccurate"):
                res["c01"] = [("mosek-number-for-model-without-optimum", "the MOSEK path returned %r for a model the cvxpy path reports %s; everything "
                               "derived from that number is meaningless (%s)" % (val, rr["status"], res["c01"][0][1][:80]))] if res["c01"] else []
                res["c02"] = [("mosek-number-for-model-without-optimum", "the MOSEK path returned %r for a model the cvxpy path reports %s"
                               % (val, rr["status"]))] if res["c02"] else []
                res["outcome"] = "no-optimum-on-cvxpy-path"
        except Exception:
            pass
    return res


# ---------------------------------------------------------------------------------------------------------------------
# shipped examples as models: the example builds its own PEP; PEP.solve is wrapped so that the solved problem is judged
# (certificate over the recorded sent list, instance, translation validation) before control returns to the example.
# ---------------------------------------------------------------------------------------------------------------------
def run_example_as_model(name, kw, backend="cvxpy"):
    """Returns dict(c01=[...], c02=[...], c05=[...], outcome)."""
    import contextlib, importlib, io
    from mc import examples_table as T
    from PEPit.pep import PEP
    from PEPit.point import Point
    from PEPit.expression import Expression
    e = T.ENTRIES[name]
    fn = getattr(importlib.import_module(e["module"]), e["func"])
    res = dict(c01=[], c02=[], c05=[], outcome="not-solved", solves=0)
    orig = PEP.solve

    def solve(self, *a, **k):
        with REC.recording():
            out = orig(self, *a, **k)
        res["solves"] += 1
        try:
            w = self.wrapper
            status = w.prob.status if getattr(w, "prob", None) is not None and hasattr(w.prob, "status") else w.task.sol.get("status")
        except Exception:
            status = None
        if out is None or status != "optimal":
            res["outcome"] = "not-judged:%s" % status
            return out
        be = self.wrapper_name if self.wrapper_name in ("cvxpy", "mosek") else backend
        tol = solving.tolerance(be, getattr(self.wrapper, "solver_name", "CLARABEL") if be == "cvxpy" else "CLARABEL")
        calls = getattr(self.wrapper, "rec_calls", None)
        if calls is None:
            return out
        try:
            from mc.checks.c05 import validate_posed
            probs5, _, _ = validate_posed(self, be, dr=bool(k.get("dimension_reduction_heuristic")))
            res["c05"] += probs5
        except Exception as ex:
            res["c05"].append(("model:validation-raised:%s" % type(ex).__name__, str(ex)[:150]))
        sent_c = [c[1] for c in calls if c[0] == "scalar"]
        sent_m = [c[1] for c in calls if c[0] == "lmi"]
        try:
            cert = CERT.certificate(self, constraints=sent_c, psds=sent_m)
            sc = cert["scale"]
            if cert["resid"] > tol * sc:
                if cert["asym_pairs"] > 0 and cert["resid_after_asym"] <= tol * sc:
                    res["c01"].append(("cert:lmi-not-symmetric-as-written:%s" % be, "identity fails by %.2e but closes (%.1e) with antisymmetric corrections on %d entry pairs" % (cert["resid"], cert["resid_after_asym"], cert["asym_pairs"])))
                else:
                    res["c01"].append(("cert:identity:%s" % be, "example %s%s: largest non-constant coefficient of the identity %.2e (scale %.2e)" % (name, kw, cert["resid"], sc)))
            elif abs(cert["const"] - out) > 1e-9 * max(1.0, abs(out)) and k.get("return_primal_or_dual", "dual") == "dual":
                res["c01"].append(("cert:value-not-constant:%s" % be, "example %s%s returned %.10g, identity constant %.10g" % (name, kw, out, cert["const"])))
            if cert["lam_min"] < -tol * max(1.0, sc) or cert["psd_min"] < -tol * max(1.0, sc):
                res["c01"].append(("cert:sign:%s" % be, "negative multiplier %.2e / eigenvalue %.2e" % (cert["lam_min"], cert["psd_min"])))
            if [id(x) for x in sent_c] != [id(x) for x in self._list_of_constraints_sent_to_wrapper] or [id(x) for x in sent_m] != [id(x) for x in self._list_of_psd_sent_to_wrapper]:
                res["c01"].append(("cert:sent-list-mismatch:%s" % be, "the problem's record of what was sent differs from what was sent"))
        except Exception as ex:
            res["c01"].append(("cert:raised:%s:%s" % (be, type(ex).__name__), str(ex)[:150]))
        try:
            sG = sF = None
            if be == "cvxpy":
                sG, sF = self.wrapper.G.value, self.wrapper.F.value
            else:
                sG, sF = self.wrapper.task.sol["barx"][0], self.wrapper.task.sol["xx"]
            res["c02"] += [(k_ + ":" + be, m_) for k_, m_ in CERT.instance(self, held=[], tol=tol, solver_G=sG, solver_F=sF)]
        except Exception as ex:
            res["c02"].append(("instance:raised:%s:%s" % (be, type(ex).__name__), str(ex)[:150]))
        res["outcome"] = "judged"
        res["pep"] = self
        return out
    PEP.solve = solve
    try:
        with contextlib.redirect_stdout(io.StringIO()):
            if backend == "mosek":
                with solving.standin():
                    fn(verbose=0, wrapper="mosek", **kw)
            else:
                fn(verbose=0, solver="CLARABEL", **kw)
    except Exception as ex:
        if type(ex).__name__ != "SolverError":
            res["c01"].append(("example-raised:%s" % type(ex).__name__, "%s%s raised %s: %s" % (name, kw, type(ex).__name__, str(ex)[:150])))
            res["c02"].append(("example-raised:%s" % type(ex).__name__, "%s%s raised %s" % (name, kw, type(ex).__name__)))
        res["outcome"] = "raised"
    finally:
        PEP.solve = orig
    res.pop("pep", None)
    return res
