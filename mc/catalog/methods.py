"""Independent numerical implementations of the methods modelled by shipped examples (C09), run on real catalogue members.

Each family provides
    runs(params) -> iterator of (performance, description) over all eligible members x admissible starting points x
                    EVERY resolution of the method's nondeterminism (subgradient at a kink, LMO ties, ...)
where `performance` is the quantity the example bounds, measured on a run whose starting point satisfies the example's
initial condition.  Eligibility of a member is decided by the definitional self-test of mc.catalog.members, never by
interpolation conditions."""
import itertools
import copy
import math

import numpy as np

from mc.catalog import members as MEM

v = MEM.v


def eligible(cls, par, kind="f", dims=(1, 2), extra=()):
    out = []
    for m in list(MEM.ALL) + list(extra):
        if m.kind != kind or m.dim not in dims:
            continue
        try:
            if MEM.selftest(m, cls, par) is None:
                c = copy.copy(m)
                # claimed memberships are analytic facts; any other accepted membership was verified on the fine grid only
                c.limited = not any(cn == cls and MEM._same_par(cp, par) for cn, cp in m.claims)
                out.append(c)
        except Exception:
            continue
    return out


def starts_at_distance(m, xs, radius=1.0):
    """grid starts with ||x0 - xs|| <= radius, plus the points at distance exactly `radius` along the axes"""
    pts = [p for p in m.grid() if np.linalg.norm(p - xs) <= radius + 1e-12]
    for k in range(m.dim):
        for s in (-1.0, 1.0):
            p = np.array(xs, float).copy(); p[k] += s * radius
            if m.in_domain(p):
                pts.append(p)
    uniq = []
    for p in pts:
        if not any(np.allclose(p, q) for q in uniq):
            uniq.append(p)
    return uniq


def starts_any(m, xs):
    """starts at ANY positive distance of xs: the grid, the unit sphere along the axes / diagonals and a geometric ladder of
    radii.  Only for families whose class, method and measures are invariant under f -> f(r .) / r^2 (operators: A(r .) / r):
    iterates are divided by r and every squared distance / function-value gap / squared gradient norm by r^2, so the run from
    initial quantity Phi is the run from initial quantity 1 on the rescaled member with performance / Phi."""
    xs = np.array(xs, float)
    pts = [p for p in m.grid()]
    if m.dim == 1:
        dirs = [v(1.0), v(-1.0)]
    else:
        dirs = [v(math.cos(t), math.sin(t)) for t in np.linspace(0, 2 * math.pi, 8, endpoint=False)]
    for dvec in dirs:
        for r in (0.1, 0.3, 1.0, 3.0, 10.0):
            pts.append(xs + r * dvec)
    uniq = []
    for p in pts:
        if m.in_domain(p) and np.linalg.norm(p - xs) > 1e-6 and not any(np.allclose(p, q) for q in uniq):
            uniq.append(p)
    return uniq


def dist2(x, y):
    return float((x - y) @ (x - y))


def grad(m, x):
    return m.grads(x)[0]


def fstar(m):
    return min(m.value(s) for s in m.stationary)


# ---- generic proximal operator ----------------------------------------------------------------------------------------

def prox(m, x0, gamma):
    """prox_{gamma f}(x0) for catalogue members: 2-d quadratics in closed form, 1-d members by bisection on the monotone
    inclusion  x + gamma * df(x)  contains x0 (exact at the kinks of the catalogue members, which are integers)."""
    if m.matrix is not None and m.kind == "f" and m.center is not None:
        Q = m.matrix
        c = m.center
        return np.linalg.solve(np.eye(m.dim) + gamma * Q, x0 + gamma * Q @ c)
    if m.dim != 1:
        raise NotImplementedError
    lo_f = lambda t: min(g[0] for g in m._grads(v(t)))      # the search itself is not part of the run: no range accounting
    hi_f = lambda t: max(g[0] for g in m._grads(v(t)))
    t0 = float(x0[0])
    # candidates: kinks (integers and half-integers within range) where the inclusion may hold with an interior subgradient
    for k in np.arange(-8, 8.5, 0.5):
        if m.in_domain(v(k)) and k + gamma * lo_f(k) - 1e-12 <= t0 <= k + gamma * hi_f(k) + 1e-12:
            return v(k)
    a, b = t0 - 50.0, t0 + 50.0
    if m.domain is not None:
        pts = [p[0] for p in m.fine()]
        a, b = min(pts), max(pts)
        if a + gamma * lo_f(a) >= t0:
            return v(a)
        if b + gamma * hi_f(b) <= t0:
            return v(b)
    for _ in range(200):
        mid = (a + b) / 2
        if mid + gamma * hi_f(mid) < t0:
            a = mid
        else:
            b = mid
    return v((a + b) / 2)


def resolvent(m, x0, alpha):
    """J_{alpha A}(x0) for operator members: linear ones exactly, 1-d monotone ones by bisection"""
    if m.matrix is not None and m.matrix.shape[0] == m.matrix.shape[1]:
        return np.linalg.solve(np.eye(m.dim) + alpha * m.matrix, x0)
    return prox(m, x0, alpha)


# ---- families ---------------------------------------------------------------------------------------------------------

def huber_extremal(L, gamma, n):
    """the known worst-case function of gradient descent on L-smooth convex functions for gamma <= 1/L"""
    r = 1.0 / (2 * n * L * gamma + 1)
    return MEM.huber1(L, L * r)


def fam_gradient_descent(p):
    L, g, n = p["L"], p["gamma"], p["n"]
    extra = [huber_extremal(L, g, n)]
    for m in eligible("SmoothConvexFunction", {"L": L}, extra=extra):
        for xs in m.stationary:
            for x0 in starts_at_distance(m, xs):
                x = x0.copy()
                for _ in range(n):
                    x = x - g * grad(m, x)
                yield m.value(x) - fstar(m), "%s from %s" % (m.name, x0.tolist())


def fam_gd_contraction(p):
    L, mu, g, n = p["L"], p["mu"], p["gamma"], p["n"]
    for m in eligible("SmoothStronglyConvexFunction", {"mu": mu, "L": L}):
        for x0 in m.grid():
            for y0 in starts_any(m, x0):
                x, y = x0.copy(), y0.copy()
                for _ in range(n):
                    x, y = x - g * grad(m, x), y - g * grad(m, y)
                yield float((x - y) @ (x - y)) / dist2(x0, y0), "%s from %s / %s" % (m.name, x0.tolist(), y0.tolist())


def fam_gd_quadratics(p):
    mu, L, g, n = p["mu"], p["L"], p["gamma"], p["n"]
    extra = [MEM.quad2([[mu, 0], [0, L]]), MEM.quad1(L), MEM.quad1(mu)]
    t = 1 / (L * g * (2 * n + 1))
    if mu / L < t < 1:
        extra.append(MEM.quad1(t * L))          # the eigenvalue attaining the documented rate
    for m in eligible("SmoothStronglyConvexQuadraticFunction", {"mu": mu, "L": L}, extra=extra):
        xs = m.stationary[0]
        for x0 in starts_at_distance(m, xs):
            x = x0.copy()
            for _ in range(n):
                x = x - g * grad(m, x)
            yield m.value(x) - fstar(m), "%s from %s" % (m.name, x0.tolist())


def fam_gd_qg(p):
    L, g, n = p["L"], p["gamma"], p["n"]
    for m in eligible("ConvexQGFunction", {"L": L}):
        for xs in m.stationary:
            for x0 in starts_any(m, xs):
                # gradient descent with every subgradient selection at kinks
                def rec(x, k):
                    if k == n:
                        yield x
                        return
                    for gg in m.grads(x):
                        yield from rec(x - g * gg, k + 1)
                for x in rec(x0.copy(), 0):
                    yield (m.value(x) - fstar(m)) / dist2(x0, xs), "%s from %s" % (m.name, x0.tolist())


def fam_subgradient_rsi_eb(p):
    mu, L, g, n = p["mu"], p["L"], p["gamma"], p["n"]
    for m in eligible("RsiEbFunction", {"mu": mu, "L": L}):
        xs = m.stationary[0]
        for x0 in starts_any(m, xs):
            x = x0.copy()
            for _ in range(n):
                x = x - g * grad(m, x)
            yield float((x - xs) @ (x - xs)) / dist2(x0, xs), "%s from %s" % (m.name, x0.tolist())


def fam_subgradient_method(p):
    M, n, g = p["M"], p["n"], p["gamma"]
    for m in eligible("ConvexLipschitzFunction", {"M": M}):
        for xs in m.stationary[:2]:
            for x0 in starts_at_distance(m, xs):
                def rec(x, k, best):
                    best = min(best, m.value(x) - fstar(m))
                    if k == n:
                        yield best
                        return
                    for gg in m.grads(x):
                        yield from rec(x - g * gg, k + 1, best)
                if n > 6 and len(m.grads(v(*([0.0] * m.dim)))) > 1:
                    continue      # the selection tree is enumerated completely up to n = 6
                for best in rec(x0.copy(), 0, float("inf")):
                    yield best, "%s from %s" % (m.name, x0.tolist())


def fam_proximal_point(p):
    g, n = p["gamma"], p["n"]
    extra = [MEM.abs1(1.0 / (2 * g * n))]             # the known worst-case function
    for m in eligible("ConvexFunction", {}, dims=(1,), extra=extra) + [q for q in eligible("ConvexFunction", {}, dims=(2,)) if q.matrix is not None]:
        if not m.stationary or m.domain is not None:
            continue
        for xs in m.stationary[:2]:
            for x0 in starts_at_distance(m, xs):
                x = x0.copy()
                for _ in range(n):
                    x = prox(m, x, g)
                yield m.value(x) - fstar(m), "%s from %s" % (m.name, x0.tolist())


def _smooth_sc_members(mu, L):
    return eligible("SmoothStronglyConvexFunction", {"mu": mu, "L": L}, extra=[MEM.quad2([[mu, 0], [0, L]])] if mu > 0 else [])


def fam_heavy_ball(p):
    mu, L, a, b, n = p["mu"], p["L"], p["alpha"], p["beta"], p["n"]
    for m in _smooth_sc_members(mu, L):
        for x0 in starts_any(m, m.stationary[0]):
            Phi = m.value(x0) - fstar(m)
            if Phi < 1e-9:
                continue
            xn, xo = x0.copy(), x0.copy()
            for _ in range(n):
                xn, xo = xn - a * grad(m, xn) + b * (xn - xo), xn
            yield (m.value(xn) - fstar(m)) / Phi, "%s from %s" % (m.name, x0.tolist())


def fam_accelerated_gradient_convex(p):
    mu, L, n = p["mu"], p["L"], p["n"]
    cls, par = ("SmoothConvexFunction", {"L": L}) if mu == 0 else ("SmoothStronglyConvexFunction", {"mu": mu, "L": L})
    for m in eligible(cls, par):
        for xs in m.stationary:
            for x0 in starts_any(m, xs):
                xn, y = x0.copy(), x0.copy()
                for i in range(n):
                    xo = xn
                    xn = y - 1 / L * grad(m, y)
                    y = xn + i / (i + 3) * (xn - xo)
                yield (m.value(xn) - fstar(m)) / dist2(x0, xs), "%s from %s" % (m.name, x0.tolist())


def fam_accelerated_gradient_strongly_convex(p):
    mu, L, n = p["mu"], p["L"], p["n"]
    kappa = mu / L
    for m in _smooth_sc_members(mu, L):
        xs = m.stationary[0]
        for x0 in starts_any(m, xs):
            Phi = m.value(x0) - fstar(m) + mu / 2 * float((x0 - xs) @ (x0 - xs))
            if Phi < 1e-9:
                continue
            xn, y = x0.copy(), x0.copy()
            for i in range(n):
                xo = xn
                xn = y - 1 / L * grad(m, y)
                y = xn + (1 - math.sqrt(kappa)) / (1 + math.sqrt(kappa)) * (xn - xo)
            yield (m.value(xn) - fstar(m)) / Phi, "%s from %s" % (m.name, x0.tolist())


def fam_triple_momentum(p):
    mu, L, n = p["mu"], p["L"], p["n"]
    kappa = L / mu
    rho = 1 - 1 / math.sqrt(kappa)
    alpha, beta = (1 + rho) / L, rho ** 2 / (2 - rho)
    gamma, delta = rho ** 2 / (1 + rho) / (2 - rho), rho ** 2 / (1 - rho ** 2)
    for m in _smooth_sc_members(mu, L):
        xs = m.stationary[0]
        for x0 in starts_any(m, xs):
            xo, xn, y = x0.copy(), x0.copy(), x0.copy()
            x = x0.copy()
            for _ in range(n):
                xi = (1 + beta) * xn - beta * xo - alpha * grad(m, y)
                y = (1 + gamma) * xi - gamma * xn
                x = (1 + delta) * xi - delta * xn
                xn, xo = xi, xn
            yield (m.value(x) - fstar(m)) / dist2(x0, xs), "%s from %s" % (m.name, x0.tolist())


def fam_optimized_gradient(p):
    L, n = p["L"], p["n"]
    for m in eligible("SmoothConvexFunction", {"L": L}):
        for xs in m.stationary:
            for x0 in starts_any(m, xs):
                th = 1.0
                xn, y = x0.copy(), x0.copy()
                for i in range(n):
                    xo = xn
                    xn = y - 1 / L * grad(m, y)
                    tho = th
                    th = (1 + math.sqrt(4 * th ** 2 + 1)) / 2 if i < n - 1 else (1 + math.sqrt(8 * th ** 2 + 1)) / 2
                    y = xn + (tho - 1) / th * (xn - xo) + tho / th * (xn - y)
                yield (m.value(y) - fstar(m)) / dist2(x0, xs), "%s from %s" % (m.name, x0.tolist())


def fam_gd_silver(p):
    """gradient descent with the silver step-size schedule h_i = 1 + rho^(nu(i) - 1), rho = 1 + sqrt(2), nu = 2-adic valuation,
    run for the documented number of steps: the largest 2^k - 1 that does not exceed n"""
    L, n = p["L"], p["n"]
    k = int(math.floor(math.log2(n + 1) + 1e-12))
    n_eff = 2 ** k - 1
    rho = 1 + math.sqrt(2)

    def nu(i):
        v_ = 0
        while i % 2 == 0:
            i //= 2
            v_ += 1
        return v_
    h = [1 + rho ** (nu(i) - 1) for i in range(1, n_eff + 1)]
    extra = [huber_extremal(L, hh / L, 1) for hh in sorted(set(h))] + [MEM.huber1(L, L * t_) for t_ in (0.1, 0.2, 0.35, 0.5, 0.7)]
    for m in eligible("SmoothConvexFunction", {"L": L}, extra=extra):
        for xs in m.stationary[:2]:
            for x0 in starts_any(m, xs):
                x = x0.copy()
                for i in range(n_eff):
                    x = x - h[i] / L * grad(m, x)
                yield (m.value(x) - fstar(m)) / dist2(x0, xs), "%s from %s, %d steps" % (m.name, x0.tolist(), n_eff)


def fam_relatively_inexact_ppa(p):
    """x_{t+1} = x_t - gamma s_{t+1} + e_{t+1}, s_{t+1} in df(x_{t+1}), |e_{t+1}| <= sigma |x_{t+1} - x_t|, on f = c |x| from x0 = 1
    for a ladder of slopes c; at every step the error takes its two extreme admissible values or 0 (complete tree); every
    step is re-checked against the documented requirement before the run is reported"""
    n, gamma, sigma = p["n"], p["gamma"], p["sigma"]
    for c in [0.02 * 1.12 ** k for k in range(70)]:
        def rec(x, k):
            if k == n:
                yield x
                return
            for kap in ((-1.0, 0.0, 1.0) if sigma > 0 else (0.0,)):
                xn = x - gamma * c / (1 + kap * sigma)
                if xn > 1e-12:
                    s_, e_ = c, xn - x + gamma * c
                elif x * (1 - sigma) / gamma <= c and kap == 0.0:
                    xn = 0.0
                    s_ = min(c, x / gamma)
                    e_ = xn - x + gamma * s_
                else:
                    continue
                assert abs(e_) <= sigma * abs(xn - x) + 1e-12 and -c - 1e-12 <= s_ <= c + 1e-12 and (xn > 0 and abs(s_ - c) < 1e-12 or xn == 0.0)
                yield from rec(xn, k + 1)
        for xn in rec(1.0, 0):
            yield c * abs(xn), "f = %.4g |x| from 1" % c


def fam_three_operator_splitting(p):
    """x = J_{aB}(w), y = J_{aA}(2x - w - a C x), w+ = w - theta (x - y) with LINEAR members on R^2: A monotone (multiples of the
    identity up to a stiff one standing for the normal cone of {0}, skew rotations), B = b Id with b <= 1/beta (beta-cocoercive),
    C = gradient of a quadratic with spectrum in [mu, L].  The map w -> w+ is linear: the contraction factor between two runs
    is its squared spectral norm."""
    L, mu, beta, alpha, theta = p["L"], p["mu"], p["beta"], p["alpha"], p["theta"]
    I2 = np.eye(2)
    Jm = np.array([[0.0, -1.0], [1.0, 0.0]])
    As = [("0", 0 * I2), ("Id", I2), ("10Id", 10 * I2), ("1e6Id", 1e6 * I2)] + [("%gJ" % s_, s_ * Jm) for s_ in (0.5, 2.0, 10.0)] \
        + [("Id+2J", I2 + 2 * Jm)]
    Bs = [("0", 0 * I2), ("Id/beta", I2 / beta), ("Id/(2beta)", I2 / (2 * beta)), ("diag", np.diag([1 / beta, 0.0]))]
    Cs = [("mu", mu * I2), ("L", L * I2), ("diag", np.diag([mu, L])), ("mid", (mu + L) / 2 * I2)]
    for an, A in As:
        for bn, B in Bs:
            for cn, C in Cs:
                X = np.linalg.inv(I2 + alpha * B)
                Y = np.linalg.inv(I2 + alpha * A) @ (2 * X - I2 - alpha * C @ X)
                T = I2 - theta * (X - Y)
                yield float(np.linalg.norm(T, 2) ** 2), "A=%s, B=%s, C=%s" % (an, bn, cn)


def _two_lines(p, averaged):
    """Q1, Q2 = two lines through the origin of the plane at angle theta (closed convex sets with x* = 0 in both): projections
    are the linear maps u u^T; every angle of a grid and every unit start of a grid"""
    n = p["n"]
    for theta in np.linspace(0.02, math.pi / 2, 80):
        u1, u2 = v(1.0, 0.0), v(math.cos(theta), math.sin(theta))
        P1, P2 = np.outer(u1, u1), np.outer(u2, u2)
        for phi in np.linspace(0, math.pi, 25):
            x = v(math.cos(phi), math.sin(phi))
            for _ in range(n):
                x = 0.5 * (P1 @ x + P2 @ x) if averaged else P2 @ (P1 @ x)
            r = P1 @ x - P2 @ x
            yield float(r @ r), "lines at angle %.4f, start at angle %.4f" % (theta, phi)


def fam_averaged_projections(p):
    yield from _two_lines(p, True)


def fam_alternate_projections(p):
    yield from _two_lines(p, False)


def fam_exact_line_search(p):
    L, mu, n = p["L"], p["mu"], p["n"]
    Q0 = np.diag([mu, L])
    mems = [MEM.quad2(Q0.tolist())] + [m for m in eligible("SmoothStronglyConvexFunction", {"mu": mu, "L": L}, dims=(2,)) if m.matrix is not None]
    for m in mems:
        Q = m.matrix
        for x0 in list(m.grid()) + [v(1 / mu, 1 / L) / np.linalg.norm(v(1 / mu, 1 / L)) * math.sqrt(2 * (1 / (1 / mu + 1 / L)))]:
            f0 = m.value(x0) - fstar(m)
            if f0 <= 1e-12:
                continue
            s = 1 / math.sqrt(f0)          # the class is a cone: rescale so that f(x0) - f* = 1
            x = x0 * s
            for _ in range(n):
                gq = Q @ x
                if gq @ Q @ gq == 0:
                    break
                x = x - (gq @ gq) / (gq @ Q @ gq) * gq
            yield m.value(x) - fstar(m), "%s from %s (rescaled)" % (m.name, x0.tolist())


def fam_proximal_gradient(p):
    L, mu, g, n = p["L"], p["mu"], p["gamma"], p["n"]
    f1s = [m for m in _smooth_sc_members(mu, L) if m.dim == 1]
    f2s = [m for m in eligible("ConvexFunction", {}, dims=(1,)) if m.domain is None][:8] + [MEM.ind_interval(-1.0, 1.0), MEM.ind_interval(0.0, 1.0)]
    for m1 in f1s:
        for m2 in f2s:
            # minimiser of f1 + f2 (1-d, strongly convex): fixed point of the proximal gradient map, found by iterating it
            z = v(0.3)
            for _ in range(4000):
                z = prox(m2, z - (1.0 / L) * grad(m1, z), 1.0 / L)
            xs = z
            for x0 in starts_any(m1, xs):
                x = x0.copy()
                for _ in range(n):
                    x = prox(m2, x - g * grad(m1, x), g)
                yield float((x - xs) @ (x - xs)) / dist2(x0, xs), "%s + %s from %s" % (m1.name, m2.name, x0.tolist())


def fam_drs_contraction(p):
    mu, L, alpha, theta, n = p["mu"], p["L"], p["alpha"], p["theta"], p["n"]
    f1s = [m for m in _smooth_sc_members(mu, L) if m.dim == 1]
    f2s = [m for m in eligible("ConvexFunction", {}, dims=(1,)) if m.domain is None][:8] + [MEM.ind_interval(-1.0, 1.0)]
    for m1 in f1s:
        for m2 in f2s:
            for w0 in MEM.GRID1:
                for w0p in [w0 + 1.0, w0 - 1.0, w0 + 0.5]:
                    ws = []
                    for w in (w0.copy(), np.array(w0p, float)):
                        for _ in range(n):
                            x = prox(m2, w, alpha)
                            y = prox(m1, 2 * x - w, alpha)
                            w = w + theta * (y - x)
                        ws.append(w)
                    yield float((ws[0] - ws[1]) @ (ws[0] - ws[1])), "%s / %s from %s, %s" % (m1.name, m2.name, w0.tolist(), np.array(w0p).tolist())


def fam_drs_composite(p):
    """F = f1 + f2 on R, f1 closed convex, f2 L-smooth convex; x_t = prox_{a f2}(w_t), y_t = prox_{a f1}(2 x_t - w_t),
    w_{t+1} = w_t + theta (y_t - x_t); ||x_0 - x_*||^2 <= 1; performance F(y_{n-1}) - F_*"""
    L, alpha, theta, n = p["L"], p["alpha"], p["theta"], p["n"]
    f2s = [m for m in eligible("SmoothConvexFunction", {"L": L}, dims=(1,)) if m.domain is None]
    f1s = [m for m in eligible("ConvexFunction", {}, dims=(1,)) if m.domain is None][:10] + [MEM.ind_interval(-1.0, 1.0), MEM.ind_interval(0.0, 1.0)]
    for m2 in f2s:
        for m1 in f1s:
            # a minimiser of F (1-d convex): a point where 0 is in dF, by scanning the kinks then bisecting on the sign of dF
            def dF(t):
                x_ = v(t)
                lo_ = min(g[0] for g in m1.grads(x_)) + min(g[0] for g in m2.grads(x_))
                hi_ = max(g[0] for g in m1.grads(x_)) + max(g[0] for g in m2.grads(x_))
                if m1.name.startswith("ind"):
                    # indicator members list only the normal-cone selections they need; at an end point the cone is a half-line
                    pts_ = [q[0] for q in m1.fine()]
                    if abs(t - min(pts_)) < 1e-9:
                        lo_ = -np.inf
                    if abs(t - max(pts_)) < 1e-9:
                        hi_ = np.inf
                return lo_, hi_
            a, b = -50.0, 50.0
            if m1.domain is not None:
                pts = [q[0] for q in m1.fine()]
                a, b = min(pts), max(pts)
            xs = None
            for k in np.arange(-8, 8.5, 0.5):
                if a <= k <= b:
                    lo, hi = dF(float(k))
                    if lo <= 0 <= hi:
                        xs = v(k)
                        break
            if xs is None:
                for _ in range(100):
                    mid = (a + b) / 2
                    if dF(mid)[1] < 0:
                        a = mid
                    else:
                        b = mid
                xs = v((a + b) / 2)
                lo, hi = dF(float(xs[0]))
                if not (lo <= 1e-7 and hi >= -1e-7):
                    continue
            Fs = m1.value(xs) + m2.value(xs)
            for w0 in [v(t) for t in np.linspace(-3, 3, 25)]:
                x0 = prox(m2, w0, alpha)
                # both classes are invariant under f -> f(r .) / r^2 and the iteration commutes with it (iterates / r, values / r^2):
                # a run from distance d is the run from distance 1 on the rescaled member, with performance / d^2
                d2 = float((x0 - xs) @ (x0 - xs))
                if d2 < 1e-6:
                    continue
                w, y = w0.copy(), None
                for _ in range(n):
                    x = prox(m2, w, alpha)
                    y = prox(m1, 2 * x - w, alpha)
                    w = w + theta * (y - x)
                yield (m1.value(y) + m2.value(y) - Fs) / d2, "%s + %s from w0=%s (rescaled to unit distance)" % (m1.name, m2.name, w0.tolist())


def fam_frank_wolfe(p):
    L, D, n = p["L"], p["D"], p["n"]
    sets = [(-D / 2, D / 2), (0.0, D), (-D, 0.0)]
    for m in eligible("SmoothConvexFunction", {"L": L}, dims=(1,)):
        for (a, b) in sets:
            grid = np.linspace(a, b, 201)
            Fs = min(m.value(v(t)) for t in grid)
            for x0 in (a, b, (a + b) / 2):
                def rec(x, i):
                    if i == n:
                        yield x
                        return
                    gq = grad(m, v(x))[0]
                    ys = [a] if gq > 0 else ([b] if gq < 0 else [a, b])      # LMO ties: every vertex
                    lam = 2 / (i + 2)
                    for y in ys:
                        yield from rec((1 - lam) * x + lam * y, i + 1)
                for x in rec(x0, 0):
                    yield m.value(v(x)) - Fs, "%s on [%g,%g] from %g" % (m.name, a, b, x0)


def _nonexp_members(Lip=1.0):
    return eligible("LipschitzOperator", {"L": Lip}, kind="o")


def fam_halpern(p):
    n = p["n"]
    for m in _nonexp_members():
        if m.matrix is not None and m.matrix.shape[0] != m.matrix.shape[1]:
            continue
        for xs in m.fixed:
            for x0 in starts_any(m, xs):
                x = x0.copy()
                for i in range(n):
                    x = 1 / (i + 2) * x0 + (1 - 1 / (i + 2)) * grad(m, x)
                r = x - grad(m, x)
                yield float(r @ r) / dist2(x0, xs), "%s from %s" % (m.name, x0.tolist())


def fam_km(p):
    n, g = p["n"], p["gamma"]
    for m in _nonexp_members():
        if m.matrix is not None and m.matrix.shape[0] != m.matrix.shape[1]:
            continue
        for xs in m.fixed:
            for x0 in starts_any(m, xs):
                x = x0.copy()
                for _ in range(n):
                    x = (1 - g) * x + g * grad(m, x)
                r = 0.5 * (x - grad(m, x))
                yield float(r @ r) / dist2(x0, xs), "%s from %s" % (m.name, x0.tolist())


def fam_contractive_halpern(p):
    n, g = p["n"], p["gamma"]
    for m in _nonexp_members(1 / g):
        if m.matrix is not None and m.matrix.shape[0] != m.matrix.shape[1]:
            continue
        for xs in m.fixed:
            for x0 in starts_any(m, xs):
                x = x0.copy()
                for i in range(n):
                    phi = (g ** (2 * i + 4) - 1) / (g ** 2 - 1)
                    x = 1 / phi * x0 + (1 - 1 / phi) * grad(m, x)
                r = x - grad(m, x)
                yield float(r @ r) / dist2(x0, xs), "%s from %s" % (m.name, x0.tolist())


def _monotone_members():
    out = []
    for m in eligible("MonotoneOperator", {}, kind="o"):
        if m.matrix is not None and m.matrix.shape[0] == m.matrix.shape[1]:
            out.append(m)
        elif m.matrix is None and m.dim == 1 and m.name in ("sign", "clip", "x^3") or m.name.startswith("mu*x+sign"):
            out.append(m)
    return out


def fam_ppa_operators(p):
    alpha, n = p["alpha"], p["n"]
    for m in _monotone_members():
        for xs in m.stationary:
            for x0 in starts_any(m, xs):
                x = x0.copy()
                prev = x
                for _ in range(n):
                    prev = x
                    x = resolvent(m, prev, alpha)
                yield float((x - prev) @ (x - prev)) / dist2(x0, xs), "%s from %s" % (m.name, x0.tolist())


def fam_accelerated_ppa_operators(p):
    alpha, n = p["alpha"], p["n"]
    for m in _monotone_members():
        for xs in m.stationary:
            for x0 in starts_any(m, xs):
                x = [x0.copy() for _ in range(n + 1)]
                y = [x0.copy() for _ in range(n + 1)]
                for i in range(0, n - 1):
                    x[i + 1] = resolvent(m, y[i + 1], alpha)
                    y[i + 2] = x[i + 1] + i / (i + 2) * (x[i + 1] - x[i]) - i / (i + 2) * (x[i] - y[i])
                x[n] = resolvent(m, y[n], alpha)
                yield float((x[n] - y[n]) @ (x[n] - y[n])) / dist2(x0, xs), "%s from %s" % (m.name, x0.tolist())


def fam_sgd(p):
    L, mu, g, vv, R, n = p["L"], p["mu"], p["gamma"], p["v"], p["R"], p["n"]
    # finite sums of 1-d quadratics f_i(x) = c_i/2 x^2 + a_i x with c_i in {mu, L}; x* = -sum a / sum c; exact expectation
    for cs in itertools.product([mu, L], repeat=min(n, 3)):
        cs = list(cs) + [mu] * (n - len(cs))
        for pattern in ([1, -1], [1, 0, -1], [2, -1, -1]):
            a = np.array([pattern[i % len(pattern)] for i in range(n)], float)
            xs = -a.sum() / sum(cs)
            gs = np.array([c * xs + ai for c, ai in zip(cs, a)])
            var = float(np.mean(gs ** 2))
            if var <= 1e-12:
                continue
            a2 = a * (vv / math.sqrt(var))           # rescale the linear terms so that the variance at x* is exactly v^2
            xs2 = -a2.sum() / sum(cs)
            for x0 in (xs2 + R, xs2 - R, xs2):
                perf = float(np.mean([(x0 - g * (c * x0 + ai) - xs2) ** 2 for c, ai in zip(cs, a2)]))
                yield perf, "quadratics c=%s a=%s from %g" % (cs, np.round(a2, 3).tolist(), x0)


def tri_member(L):
    """f' = L * triangle wave of period 4 and amplitude 1 (|f''| = L almost everywhere): an L-smooth non-convex function"""
    def tri(t):
        t = (t + 1.0) % 4.0 - 1.0
        return t if t <= 1.0 else 2.0 - t

    def F(t):
        # integral of tri from 0 to t
        k = math.floor((t + 1.0) / 4.0)
        r = t - 4.0 * k
        base = 0.0          # the integral over a full period vanishes
        if r <= 1.0:
            return base + r * r / 2.0
        return base + 0.5 + (2.0 * (r - 1.0) - (r * r - 1.0) / 2.0)
    return MEM.Member("tri(%g)" % L, 1, value=lambda x: L * F(x[0]), grads=lambda x: [v(L * tri(x[0]))], stationary=[v(0)])


def sawtooth_member(L):
    """f'(x) = 1 - L * dist(x, (1/L) Z): f'' = +-L almost everywhere.  Gradient descent with step 1/L from 0 sees the
    gradient 1 at every iterate while f decreases by 3/(4L) per step - the known extremal run (ratio 4L/(3n))."""
    d = 1.0 / L

    def dist(t):
        r = t % d
        return min(r, d - r)

    def F(t):
        k = math.floor(t / d)
        r = t - k * d
        part = r * r / 2 if r <= d / 2 else d * d / 4 - (d - r) ** 2 / 2
        return t - L * (k * d * d / 4 + part)
    return MEM.Member("sawtooth(%g)" % L, 1, value=lambda x: F(x[0]), grads=lambda x: [v(1.0 - L * dist(x[0]))], stationary=[])


def fam_gd_nonconvex(p):
    L, g, n = p["L"], p["gamma"], p["n"]
    extra = [tri_member(L), sawtooth_member(L)]
    for m in eligible("SmoothFunction", {"L": L}, dims=(1, 2), extra=extra):
        starts = m.grid() if m.dim == 2 else [v(t) for t in np.linspace(-2, 2, 81)]
        for x0 in starts:
            x = x0.copy()
            best = float(grad(m, x) @ grad(m, x))
            for _ in range(n):
                x = x - g * grad(m, x)
                best = min(best, float(grad(m, x) @ grad(m, x)))
            dec = m.value(x0) - m.value(x)
            if dec > 1e-9:
                yield best / dec, "%s from %s" % (m.name, np.round(x0, 4).tolist())


def fam_eps_subgradient(p):
    M, n, g, eps, R = p["M"], p["n"], p["gamma"], p["eps"], p["R"]
    if n > 4:
        return
    for m in eligible("ConvexLipschitzFunction", {"M": M}, dims=(1,)):
        if not m.stationary:
            continue
        xs = m.stationary[0]
        ys = [v(t) for t in np.linspace(-3, 3, 25)]

        zs = np.concatenate([-np.geomspace(1e-3, 1e3, 120)[::-1], [0.0], np.geomspace(1e-3, 1e3, 120)])

        def eps_subgradients(x):
            """end points of the epsilon-subdifferential at x (an interval in 1-d), computed FROM ITS DEFINITION
            f(z) >= f(x) + g (z - x) - eps for all z, clipped to |g| <= M, plus the exact subgradients and 0"""
            t = float(x[0])
            fx = m.value(x)
            up = min((m.value(v(t + dz)) - fx + eps) / dz for dz in zs if dz > 0)
            lo = max((fx - m.value(v(t + dz)) - eps) / (-dz) for dz in zs if dz < 0)
            lo, up = max(lo, -M), min(up, M)
            cands = [lo, up] + [gg[0] for gg in m.grads(x)] + ([0.0] if lo <= 0.0 <= up else [])
            out = []
            for c in cands:
                if lo - 1e-12 <= c <= up + 1e-12 and not any(abs(c - o[0]) < 1e-9 for o in out):
                    out.append(v(c))
            return out
        for x0 in [xs + R, xs - R, xs + R / 2]:
            def rec(x, k, best):
                best = min(best, m.value(x) - fstar(m))
                if k == n:
                    yield best
                    return
                for gg in eps_subgradients(x):
                    yield from rec(x - g * gg, k + 1, best)
            for best in rec(np.array(x0, float), 0, float("inf")):
                yield best, "%s from %s" % (m.name, np.array(x0).tolist())


def fam_eps_subgradient_2d(p):
    """f = M ||x||_2 on R^2: its eps-subdifferential at x != 0 is {g : ||g|| <= M, M ||x|| - <g, x> <= eps}; the run may pick the
    exact gradient or a point on the boundary of that set with either tangential orientation"""
    M, n, g, eps, R = p["M"], p["n"], p["gamma"], p["eps"], p["R"]
    if n > 6:
        return
    m = MEM.norm2(M)

    def choices(x):
        r = float(np.linalg.norm(x))
        if r < 1e-12:
            return [v(M, 0), v(0, -M), v(0, 0)]
        rad = x / r
        ort = v(-rad[1], rad[0])
        a = max(M - eps / r, -M)
        b = math.sqrt(max(M * M - a * a, 0.0))
        out = [M * rad, a * rad + b * ort, a * rad - b * ort]
        return out
    for x0 in (v(R, 0), v(R / math.sqrt(2), -R / math.sqrt(2)), v(R / 2, 0)):
        def rec(x, k, best):
            best = min(best, m.value(x))
            if k == n:
                yield best
                return
            for gg in choices(x):
                # the admissibility of gg is re-checked from the DEFINITION on a fan of test points
                for z in [x, 0 * x, 10 * x, -x, x + v(0.3, -0.2), v(1e3, 5e2)]:
                    assert m.value(z) >= m.value(x) + gg @ (z - x) - eps - 1e-9
                yield from rec(x - g * gg, k + 1, best)
        for best in rec(x0.copy(), 0, float("inf")):
            yield best, "norm2(%g) from %s" % (M, x0.tolist())


def fam_eps_subgradient_all(p):
    yield from fam_eps_subgradient(p)
    yield from fam_eps_subgradient_2d(p)


def fam_inexact_gd(p):
    L, mu, eps, n = p["L"], p["mu"], p["epsilon"], p["n"]
    if n > 3:
        return
    Leps, meps = (1 + eps) * L, (1 - eps) * mu
    g = 2 / (Leps + meps)
    for m in _smooth_sc_members(mu, L):
        dirs = [v(1.0), v(-1.0)] if m.dim == 1 else [v(math.cos(a), math.sin(a)) for a in np.linspace(0, 2 * math.pi, 8, endpoint=False)]
        for x0 in m.grid():
            f0 = m.value(x0) - fstar(m)
            if f0 <= 1e-12:
                continue
            def rec(x, k):
                if k == n:
                    yield x
                    return
                gq = grad(m, x)
                for u in dirs:          # directions on the boundary of the allowed relative error
                    yield from rec(x - g * (gq + eps * np.linalg.norm(gq) * u), k + 1)
            for x in rec(x0.copy(), 0):
                yield (m.value(x) - fstar(m)) / f0, "%s from %s" % (m.name, x0.tolist())


def fam_gd_qg_decreasing(p):
    L, n = p["L"], p["n"]
    for m in eligible("ConvexQGFunction", {"L": L}):
        for xs in m.stationary:
            for x0 in starts_at_distance(m, xs):
                def rec(x, k, u):
                    if k == n:
                        yield x
                        return
                    u2 = u / 2 + math.sqrt((u / 2) ** 2 + 2)
                    for gg in m.grads(x):
                        yield from rec(x - 1 / (L * u2) * gg, k + 1, u2)
                for x in rec(x0.copy(), 0, 1.0):
                    yield m.value(x) - fstar(m), "%s from %s" % (m.name, x0.tolist())


def fam_accelerated_proximal_point(p):
    A0, gammas, n = p["A0"], p["gammas"], p["n"]
    for m in eligible("ConvexFunction", {}, dims=(1,)):
        if not m.stationary or m.domain is not None:
            continue
        xs = m.stationary[0]
        for x0 in [v(t) for t in np.linspace(-2, 2, 17)] + [v(0.02 * 1.15 ** k) for k in range(60)]:
            # convex functions are invariant under f -> f(r .) / r^2, which divides iterates by r and both the initial quantity and
            # the performance by r^2: a run with initial quantity Phi is the run with Phi = 1 on the rescaled member, performance / Phi
            Phi = m.value(x0) - fstar(m) + A0 / 2 * float((x0 - xs) @ (x0 - xs))
            if Phi < 1e-6:
                continue
            x, vv, A = x0.copy(), x0.copy(), A0
            for i in range(n):
                alpha = (math.sqrt((A * gammas[i]) ** 2 + 4 * A * gammas[i]) - A * gammas[i]) / 2
                y = (1 - alpha) * x + alpha * vv
                x = prox(m, y, gammas[i])
                vv = vv + 1 / alpha * (x - y)
                A = (1 - alpha) * A
            yield (m.value(x) - fstar(m)) / Phi, "%s from %s (rescaled to unit initial quantity)" % (m.name, x0.tolist())


def _proj_interval(x, a, b):
    return np.clip(x, a, b)


def fam_optimistic_gradient(p, past=False):
    n, g, L = p["n"], p["gamma"], p["L"]
    ops = [m for m in eligible("LipschitzStronglyMonotoneOperator", {"mu": 0.0, "L": L}, kind="o") if m.matrix is not None and m.matrix.shape[0] == m.matrix.shape[1]]
    for m in ops:
        for (a, b) in [(-1.0, 1.0), (0.0, 2.0), (-5.0, 5.0)]:
            # solution of the variational inequality on the box [a,b]^dim: fixed point of the projected operator iteration
            z = np.full(m.dim, 0.3)
            for it in range(20000):
                z = _proj_interval(z - 0.05 / max(L, 1.0) * (grad(m, _proj_interval(z - 0.05 / max(L, 1.0) * grad(m, z), a, b))), a, b)
                if it % 200 == 199 and np.linalg.norm(_proj_interval(z - grad(m, z), a, b) - z) < 1e-12:
                    break
            xs = z
            if np.linalg.norm(_proj_interval(xs - grad(m, xs), a, b) - xs) > 1e-7:
                continue
            for x0 in starts_any(m, xs):
                x = _proj_interval(x0, a, b)
                sc = dist2(x, xs)       # the run starts at the projected point
                if sc < 1e-9:
                    continue
                xt = x
                V = grad(m, xt)
                prev = x
                if not past:
                    for _ in range(n):
                        prev = xt
                        xt = _proj_interval(x - g * V, a, b)
                        pV = V
                        V = grad(m, xt)
                        x = xt + g * (pV - V)
                    yield float((xt - prev) @ (xt - prev)) / sc, "%s on [%g,%g] from %s" % (m.name, a, b, x0.tolist())
                else:
                    for _ in range(n):
                        xt = _proj_interval(x - g * V, a, b)
                        V = grad(m, xt)
                        prev = x
                        x = _proj_interval(x - g * V, a, b)
                    yield float((x - prev) @ (x - prev)) / sc, "%s on [%g,%g] from %s" % (m.name, a, b, x0.tolist())


def fam_past_extragradient(p):
    yield from fam_optimistic_gradient(p, past=True)


def fam_rcd_smooth_convex(p):
    L, g, d, t = p["L"], p["gamma"], p["d"], p["t"]
    if d != 2:
        return
    for m in eligible("SmoothConvexFunction", {"L": L}, dims=(2,)):
        xs = m.stationary[0]

        def phi(k, x):
            return (k * g * L / d + 1) * (m.value(x) - fstar(m)) + L / 2 * float((x - xs) @ (x - xs))
        for x0 in m.grid():
            base = phi(t - 1, x0)
            if base <= 1e-12:
                continue
            gq = grad(m, x0)
            nxt = []
            for i in range(d):
                e = np.zeros(2); e[i] = 1
                nxt.append(phi(t, x0 - g * gq * e))
            yield float(np.mean(nxt)) / base, "%s from %s" % (m.name, x0.tolist())      # exact expectation over the block index


FAMILIES = {
    # name -> (examples_table entry, family function)
    "gradient_descent": fam_gradient_descent,
    "gradient_descent_contraction": fam_gd_contraction,
    "gradient_descent_silver_stepsize_convex": fam_gd_silver,
    "averaged_projections": fam_averaged_projections,
    "three_operator_splitting": fam_three_operator_splitting,
    "relatively_inexact_proximal_point_algorithm": fam_relatively_inexact_ppa,
    "alternate_projections": fam_alternate_projections,
    "gradient_descent_quadratics": fam_gd_quadratics,
    "gradient_descent_qg_convex": fam_gd_qg,
    "subgradient_method_rsi_eb": fam_subgradient_rsi_eb,
    "subgradient_method": fam_subgradient_method,
    "proximal_point": fam_proximal_point,
    "heavy_ball_momentum": fam_heavy_ball,
    "accelerated_gradient_convex": fam_accelerated_gradient_convex,
    "accelerated_gradient_strongly_convex": fam_accelerated_gradient_strongly_convex,
    "triple_momentum": fam_triple_momentum,
    "optimized_gradient": fam_optimized_gradient,
    "gradient_exact_line_search": fam_exact_line_search,
    "proximal_gradient": fam_proximal_gradient,
    "douglas_rachford_splitting_contraction": fam_drs_contraction,
    "douglas_rachford_splitting": fam_drs_composite,
    "frank_wolfe": fam_frank_wolfe,
    "halpern_iteration": fam_halpern,
    "krasnoselskii_mann_constant_step_sizes": fam_km,
    "optimal_contractive_halpern_iteration": fam_contractive_halpern,
    "proximal_point_operators": fam_ppa_operators,
    "accelerated_proximal_point_operators": fam_accelerated_ppa_operators,
    "sgd": fam_sgd,
    "gradient_descent_non_convex": fam_gd_nonconvex,
    "epsilon_subgradient_method": fam_eps_subgradient_all,
    "inexact_gradient_descent": fam_inexact_gd,
    "gradient_descent_qg_convex_decreasing": fam_gd_qg_decreasing,
    "accelerated_proximal_point": fam_accelerated_proximal_point,
    "optimistic_gradient": fam_optimistic_gradient,
    "past_extragradient": fam_past_extragradient,
    "randomized_coordinate_descent_smooth_convex": fam_rcd_smooth_convex,
}
