"""Concrete catalogue: real members of the 24 shipped classes in R^1 / R^2 with closed-form values, finite selections of
their (sub)differentials including the extreme ones, stationary points / zeros / fixed points.

Every membership claim (member, class, parameters) carries a SELF-TEST FROM THE CLASS DEFINITION (subgradient inequality,
strong convexity, Lipschitz gradient, monotonicity, cocoercivity, normal cone, support function, spectrum ...), evaluated
on a fine grid - never through interpolation conditions.  A member that fails its self-test is a harness error."""
import itertools
import math

import numpy as np

INF = float("inf")
TOL = 1e-9


def v(*a):
    return np.array(a, dtype=float)


GRID1 = [v(t) for t in (-2.0, -1.0, 0.0, 1.0, 2.0)]
GRID2 = [v(a, b) for a in (-1.0, 0.0, 1.0) for b in (-1.0, 0.0, 1.0)]
FINE1 = [v(t) for t in np.linspace(-3, 3, 25)]
FINE2 = [v(a, b) for a in np.linspace(-2, 2, 9) for b in np.linspace(-2, 2, 9)]


VERIFIED_RANGE = {1: 3.0, 2: 2.0}      # the boxes covered by FINE1 / FINE2, where the self-test verifies a membership
OUT_OF_RANGE = [0]


class Member(object):
    """A function (value + subdifferential selection) or an operator (image selection)."""
    kind = "f"

    def __init__(self, name, dim, value=None, grads=None, stationary=(), fixed=(), domain=None, claims=(), dist_opt=None,
                 proj_opt=None, matrix=None, center=None, vdisp=None):
        self.name, self.dim = name, dim
        self._value, self._grads = value, grads
        self.stationary = [np.array(s, float) for s in stationary]
        self.fixed = [np.array(s, float) for s in fixed]
        self.domain = domain
        self.claims = list(claims)          # (class name, parameter dict)
        self.dist_opt, self.proj_opt = dist_opt, proj_opt
        self.matrix = None if matrix is None else np.array(matrix, float)
        self.center = center
        self.vdisp = vdisp

    # a member accepted for a (class, parameters) pair it does not claim analytically was only verified on the fine grid:
    # `limited` copies (see methods.eligible) count every evaluation outside that range, and such runs are discarded
    limited = False

    def _touch(self, x):
        if self.limited and self.matrix is None and float(np.abs(np.asarray(x, float)).max(initial=0.0)) > VERIFIED_RANGE[self.dim] + 1e-9:
            OUT_OF_RANGE[0] += 1

    def value(self, x):
        self._touch(x)
        return float(self._value(x)) if self._value is not None else 0.0

    def grads(self, x):
        self._touch(x)
        return [np.array(g, float) for g in self._grads(x)]

    def in_domain(self, x):
        return True if self.domain is None else bool(self.domain(x))

    def grid(self):
        pts = GRID1 if self.dim == 1 else GRID2
        return [p for p in pts if self.in_domain(p)]

    def fine(self):
        pts = FINE1 if self.dim == 1 else FINE2
        return [p for p in pts if self.in_domain(p)]


def sgn_sel(t, lo, hi):
    """selection of the subdifferential of a kink: extremes and the middle"""
    return [lo, (lo + hi) / 2, hi] if t == 0 else ([hi] if t > 0 else [lo])


# ---------------------------------------------------------------------------------------------------------------------
# functions
# ---------------------------------------------------------------------------------------------------------------------

def quad1(a):
    claims = []
    if a >= 0:
        claims += [("ConvexFunction", {}), ("SmoothConvexFunction", {"L": a if a > 0 else 1.0}), ("SmoothConvexFunction", {"L": 2 * a + 1}),
                   ("ConvexQGFunction", {"L": max(a, 1e-9)}), ("ConvexQGFunction", {"L": 2 * a + 1})]
    if a > 0:
        claims += [("StronglyConvexFunction", {"mu": a}), ("StronglyConvexFunction", {"mu": a / 2}),
                   ("SmoothStronglyConvexFunction", {"mu": a / 2, "L": 2 * a}), ("SmoothStronglyConvexFunction", {"mu": a, "L": 2 * a}),
                   ("SmoothStronglyConvexFunction", {"mu": a / 2, "L": a}), ("SmoothStronglyConvexFunction", {"mu": 0.0, "L": a}),
                   ("RsiEbFunction", {"mu": a, "L": a}), ("RsiEbFunction", {"mu": a / 2, "L": 2 * a}),
                   ("SmoothStronglyConvexQuadraticFunction", {"mu": a, "L": 2 * a}), ("SmoothStronglyConvexQuadraticFunction", {"mu": a / 2, "L": a}),
                   ("SmoothStronglyConvexQuadraticFunction", {"mu": 0.0, "L": a})]
    claims += [("SmoothFunction", {"L": abs(a) if a != 0 else 1.0}), ("SmoothFunction", {"L": 2 * abs(a) + 1})]
    return Member("quad1(%g)" % a, 1, value=lambda x: a / 2 * x[0] ** 2, grads=lambda x: [a * x], stationary=[v(0)],
                  claims=claims, dist_opt=lambda x: abs(x[0]), proj_opt=lambda x: v(0), matrix=[[a]], center=v(0))


def shifted_quad1(a, c, d):
    m = Member("quad1(%g)@%g+%g" % (a, c, d), 1, value=lambda x: a / 2 * (x[0] - c) ** 2 + d, grads=lambda x: [a * (x - c)],
               stationary=[v(c)], dist_opt=lambda x: abs(x[0] - c), proj_opt=lambda x: v(c), matrix=[[a]], center=v(c),
               claims=[("SmoothStronglyConvexQuadraticFunction", {"mu": a / 2, "L": 2 * a}), ("SmoothStronglyConvexFunction", {"mu": a, "L": a * 2}),
                       ("SmoothConvexFunction", {"L": a}), ("ConvexQGFunction", {"L": a}), ("RsiEbFunction", {"mu": a, "L": a}),
                       ("StronglyConvexFunction", {"mu": a}), ("SmoothFunction", {"L": a})])
    return m


def lin1(s):
    claims = [("ConvexFunction", {}), ("SmoothConvexFunction", {"L": 1.0}), ("SmoothFunction", {"L": 0.5}),
              ("ConvexLipschitzFunction", {"M": max(abs(s), 0.25)}), ("SmoothConvexLipschitzFunction", {"L": 1.0, "M": max(abs(s), 0.25)}),
              ("SmoothStronglyConvexFunction", {"mu": 0.0, "L": 1.0})]
    return Member("lin1(%g)" % s, 1, value=lambda x: s * x[0], grads=lambda x: [v(s)], stationary=GRID1 if s == 0 else [], claims=claims)


def abs1(M):
    return Member("abs1(%g)" % M, 1, value=lambda x: M * abs(x[0]), grads=lambda x: [v(t) for t in sgn_sel(x[0], -M, M)],
                  stationary=[v(0)], claims=[("ConvexFunction", {}), ("ConvexLipschitzFunction", {"M": M}), ("ConvexLipschitzFunction", {"M": 2 * M})])


def relu1(M):
    return Member("relu1(%g)" % M, 1, value=lambda x: max(0.0, M * x[0]), grads=lambda x: [v(t) for t in sgn_sel(x[0], 0.0, M)],
                  stationary=[v(0), v(-1), v(-2)], claims=[("ConvexFunction", {}), ("ConvexLipschitzFunction", {"M": M})])


def huber1(L, M):
    r = M / L

    def val(x):
        t = abs(x[0])
        return L / 2 * t * t if t <= r else M * t - M * M / (2 * L)
    return Member("huber1(%g,%g)" % (L, M), 1, value=val, grads=lambda x: [v(max(-M, min(M, L * x[0])))], stationary=[v(0)],
                  dist_opt=lambda x: abs(x[0]), proj_opt=lambda x: v(0),
                  claims=[("ConvexFunction", {}), ("SmoothConvexFunction", {"L": L}), ("SmoothConvexLipschitzFunction", {"L": L, "M": M}),
                          ("SmoothConvexLipschitzFunction", {"L": 2 * L, "M": M}), ("ConvexLipschitzFunction", {"M": M}),
                          ("ConvexQGFunction", {"L": L}), ("SmoothFunction", {"L": L}), ("SmoothStronglyConvexFunction", {"mu": 0.0, "L": L})])


def sqrelu1(L):
    return Member("sqrelu1(%g)" % L, 1, value=lambda x: L / 2 * max(0.0, x[0]) ** 2, grads=lambda x: [v(L * max(0.0, x[0]))],
                  stationary=[v(0), v(-1), v(-2)], dist_opt=lambda x: max(0.0, x[0]), proj_opt=lambda x: v(min(0.0, x[0])),
                  claims=[("ConvexFunction", {}), ("SmoothConvexFunction", {"L": L}), ("ConvexQGFunction", {"L": L}), ("SmoothFunction", {"L": L})])


def dist2box1(L):
    c = lambda t: max(-1.0, min(1.0, t))
    return Member("dist2box1(%g)" % L, 1, value=lambda x: L / 2 * (x[0] - c(x[0])) ** 2, grads=lambda x: [v(L * (x[0] - c(x[0])))],
                  stationary=[v(-1), v(0), v(1)], dist_opt=lambda x: abs(x[0] - c(x[0])), proj_opt=lambda x: v(c(x[0])),
                  claims=[("ConvexFunction", {}), ("SmoothConvexFunction", {"L": L}), ("ConvexQGFunction", {"L": L})])


def kinkquad1(L):
    # L/4 x^2 on [-1, 1], L/2 x^2 - L/4 outside: convex, below L/2 x^2 (QG+), NOT differentiable at +-1
    def val(x):
        t = abs(x[0])
        return L / 4 * t * t if t <= 1 else L / 2 * t * t - L / 4

    def gr(x):
        t = x[0]
        if abs(abs(t) - 1.0) < 1e-12:
            sg = 1.0 if t > 0 else -1.0
            return [v(sg * L / 2), v(sg * 3 * L / 4), v(sg * L)]
        return [v(L / 2 * t)] if abs(t) < 1 else [v(L * t)]
    return Member("kinkquad1(%g)" % L, 1, value=val, grads=gr, stationary=[v(0)], dist_opt=lambda x: abs(x[0]), proj_opt=lambda x: v(0),
                  claims=[("ConvexFunction", {}), ("ConvexQGFunction", {"L": L}), ("ConvexQGFunction", {"L": 2 * L}),
                          ("StronglyConvexFunction", {"mu": L / 2})])


def scabs1(mu, M):
    return Member("scabs1(%g,%g)" % (mu, M), 1, value=lambda x: mu / 2 * x[0] ** 2 + M * abs(x[0]),
                  grads=lambda x: [v(mu * x[0] + t) for t in sgn_sel(x[0], -M, M)], stationary=[v(0)],
                  claims=[("ConvexFunction", {}), ("StronglyConvexFunction", {"mu": mu}), ("StronglyConvexFunction", {"mu": mu / 2})])


def cos1(L):
    return Member("cos1(%g)" % L, 1, value=lambda x: L * math.cos(x[0]), grads=lambda x: [v(-L * math.sin(x[0]))], stationary=[v(0)],
                  claims=[("SmoothFunction", {"L": L}), ("SmoothFunction", {"L": 2 * L})])


def rsi_nonconvex1():
    # f = x^2 + 1.5 sin(x)^2 : non-convex, f' = 2x + 1.5 sin(2x), unique minimiser 0, 0.5|x| <= |f'|, f'x >= 0.5 x^2 ... checked by the self-test
    return Member("x^2+1.5sin^2", 1, value=lambda x: x[0] ** 2 + 1.5 * math.sin(x[0]) ** 2,
                  grads=lambda x: [v(2 * x[0] + 1.5 * math.sin(2 * x[0]))], stationary=[v(0)],
                  dist_opt=lambda x: abs(x[0]), proj_opt=lambda x: v(0),
                  claims=[("RsiEbFunction", {"mu": 0.5, "L": 5.0}), ("SmoothFunction", {"L": 5.0})])


def quad2(Q, name=None):
    Q = np.array(Q, float)
    ev = np.linalg.eigvalsh(Q)
    lo, hi = float(ev.min()), float(ev.max())
    claims = [("SmoothFunction", {"L": max(abs(lo), abs(hi))})]
    if lo >= -1e-12:
        claims += [("ConvexFunction", {}), ("SmoothConvexFunction", {"L": hi}), ("ConvexQGFunction", {"L": hi}),
                   ("SmoothStronglyConvexFunction", {"mu": 0.0, "L": hi}),
                   ("BlockSmoothConvexFunction", {"L": [max(float(Q[0, 0]), 0.5), max(float(Q[1, 1]), 0.5)]}),
                   ("BlockSmoothConvexFunction", {"L": [2 * float(Q[0, 0]), float(Q[1, 1]) + 1]}),
                   ("BlockSmoothConvexFunction", {"L": [hi]})]
    if lo > 1e-9:
        claims += [("StronglyConvexFunction", {"mu": lo}), ("SmoothStronglyConvexFunction", {"mu": lo, "L": hi * 1.0000001 if hi == lo else hi}),
                   ("SmoothStronglyConvexFunction", {"mu": lo / 2, "L": 2 * hi}), ("RsiEbFunction", {"mu": lo, "L": hi}),
                   ("SmoothStronglyConvexQuadraticFunction", {"mu": lo, "L": hi}), ("SmoothStronglyConvexQuadraticFunction", {"mu": lo / 2, "L": 2 * hi})]
    return Member(name or "quad2(%s)" % Q.tolist(), 2, value=lambda x: 0.5 * x @ Q @ x, grads=lambda x: [Q @ x], stationary=[v(0, 0)],
                  dist_opt=lambda x: float(np.linalg.norm(x)), proj_opt=lambda x: v(0, 0), claims=claims, matrix=Q, center=v(0, 0))


def l1_2():
    def sub(x):
        sels = [sgn_sel(x[0], -1.0, 1.0), sgn_sel(x[1], -1.0, 1.0)]
        return [v(a, b) for a in sels[0] for b in sels[1]]
    return Member("l1_2", 2, value=lambda x: abs(x[0]) + abs(x[1]), grads=sub, stationary=[v(0, 0)],
                  claims=[("ConvexFunction", {}), ("ConvexLipschitzFunction", {"M": math.sqrt(2)}),
                          ("ConvexSupportFunction", {"M": math.sqrt(2)}), ("ConvexSupportFunction", {"M": INF})])


def norm2(M):
    def sub(x):
        n = np.linalg.norm(x)
        if n > 0:
            return [M * x / n]
        return [v(0, 0), v(M, 0), v(0, -M), v(-M / math.sqrt(2), M / math.sqrt(2))]
    return Member("norm2(%g)" % M, 2, value=lambda x: M * float(np.linalg.norm(x)), grads=sub, stationary=[v(0, 0)],
                  claims=[("ConvexFunction", {}), ("ConvexLipschitzFunction", {"M": M}), ("ConvexSupportFunction", {"M": M})])


def sc_relu2(mu):
    def sub(x):
        return [mu * x + v(t, 0) for t in sgn_sel(x[0], 0.0, 1.0)]
    return Member("sc_relu2(%g)" % mu, 2, value=lambda x: mu / 2 * x @ x + max(0.0, x[0]), grads=sub, stationary=[v(0, 0)],
                  claims=[("ConvexFunction", {}), ("StronglyConvexFunction", {"mu": mu})])


def sep_huber2(L1, L2):
    h = lambda t, L: L / 2 * t * t if abs(t) <= 1 else L * (abs(t) - 0.5)
    g = lambda t, L: L * max(-1.0, min(1.0, t))
    return Member("sep_huber2(%g,%g)" % (L1, L2), 2, value=lambda x: h(x[0], L1) + h(x[1], L2), grads=lambda x: [v(g(x[0], L1), g(x[1], L2))],
                  stationary=[v(0, 0)], claims=[("BlockSmoothConvexFunction", {"L": [L1, L2]}), ("SmoothConvexFunction", {"L": max(L1, L2)}),
                                                ("BlockSmoothConvexFunction", {"L": [max(L1, L2)]})])


# ---- indicators / support functions ---------------------------------------------------------------------------------

def ind_interval(a, b):
    def sub(x):
        t = x[0]
        out = [v(0)]
        if abs(t - a) < 1e-12:
            out += [v(-1), v(-3)]
        if abs(t - b) < 1e-12:
            out += [v(1), v(3)]
        return out
    return Member("ind[%g,%g]" % (a, b), 1, value=lambda x: 0.0, grads=sub, stationary=[v(t) for t in (-2., -1., 0., 1., 2.) if a <= t <= b],
                  domain=lambda x: a - 1e-12 <= x[0] <= b + 1e-12,
                  claims=[("ConvexIndicatorFunction", {"D": b - a}), ("ConvexIndicatorFunction", {"D": INF}), ("ConvexIndicatorFunction", {"D": 2 * (b - a) + 1}),
                          ("ConvexFunction", {})])


def ind_box2():
    def sub(x):
        sel = []
        for t in x:
            sel.append([0.0] + ([-2.0] if abs(t + 1) < 1e-12 else []) + ([2.0] if abs(t - 1) < 1e-12 else []))
        return [v(a, b) for a in sel[0] for b in sel[1]]
    return Member("ind_box2", 2, value=lambda x: 0.0, grads=sub, stationary=GRID2, domain=lambda x: np.all(np.abs(x) <= 1 + 1e-12),
                  claims=[("ConvexIndicatorFunction", {"D": 2 * math.sqrt(2)}), ("ConvexIndicatorFunction", {"D": INF}), ("ConvexFunction", {})])


def ind_disc2():
    def sub(x):
        n = np.linalg.norm(x)
        return [v(0, 0)] + ([x, 3 * x] if abs(n - 1) < 1e-12 else [])
    return Member("ind_disc2", 2, value=lambda x: 0.0, grads=sub, stationary=[v(0, 0), v(1, 0), v(0, -1)],
                  domain=lambda x: np.linalg.norm(x) <= 1 + 1e-12,
                  claims=[("ConvexIndicatorFunction", {"D": 2.0}), ("ConvexIndicatorFunction", {"D": INF})])


def supp_interval(a, b):
    # support function of C = [-a, b]
    def sub(x):
        t = x[0]
        return [v(b)] if t > 0 else ([v(-a)] if t < 0 else [v(-a), v(0), v(b)])
    return Member("supp[-%g,%g]" % (a, b), 1, value=lambda x: max(b * x[0], -a * x[0]), grads=sub, stationary=[v(0)],
                  claims=[("ConvexSupportFunction", {"M": max(a, b)}), ("ConvexSupportFunction", {"M": INF}), ("ConvexSupportFunction", {"M": 2 * max(a, b)}),
                          ("ConvexFunction", {}), ("ConvexLipschitzFunction", {"M": max(a, b)})])


# ---------------------------------------------------------------------------------------------------------------------
# operators
# ---------------------------------------------------------------------------------------------------------------------

class Operator(Member):
    kind = "o"

    def __init__(self, name, dim, images, zeros=(), fixed=(), claims=(), matrix=None, vdisp=None, outdim=None):
        Member.__init__(self, name, dim, value=None, grads=images, stationary=zeros, fixed=fixed, claims=claims, matrix=matrix, vdisp=vdisp)
        self.outdim = outdim or dim


def op_scale(a):
    claims = [("LipschitzOperator", {"L": max(abs(a), 0.5)}), ("LipschitzOperator", {"L": 2 * abs(a) + 1})]
    if a >= 0:
        claims += [("MonotoneOperator", {}), ("NegativelyComonotoneOperator", {"rho": 0.25}), ("StronglyMonotoneOperator", {"mu": a} if a > 0 else {"mu": 0.0}),
                   ("LipschitzStronglyMonotoneOperator", {"mu": a, "L": max(a, 0.5)}), ("LipschitzStronglyMonotoneOperator", {"mu": a / 2, "L": 2 * a + 1})]
    if a > 0:
        claims += [("CocoerciveOperator", {"beta": 1.0 / a}), ("CocoerciveOperator", {"beta": 0.5 / a}),
                   ("CocoerciveStronglyMonotoneOperator", {"mu": a, "beta": 1.0 / a}), ("CocoerciveStronglyMonotoneOperator", {"mu": a / 2, "beta": 0.5 / a})]
    if a == 0:
        claims += [("CocoerciveOperator", {"beta": 1.0}), ("CocoerciveOperator", {"beta": 100.0})]
    if abs(a) <= 1:
        claims += [("NonexpansiveOperator", {})]
    if a < 0:
        claims += [("NegativelyComonotoneOperator", {"rho": -1.0 / a}), ("NegativelyComonotoneOperator", {"rho": -2.0 / a})]
    claims += [("SymmetricLinearOperator", {"mu": a, "L": a}), ("SymmetricLinearOperator", {"mu": a - 1, "L": a + 1}), ("LinearOperator", {"L": max(abs(a), 0.5)})]
    return Operator("scale(%g)" % a, 1, images=lambda x: [a * x], zeros=[v(0)] if a != 0 else GRID1, fixed=GRID1 if a == 1 else [v(0)],
                    claims=claims, matrix=[[a]], vdisp=v(0))


def op_rot(a, b):
    n2 = a * a + b * b
    M = np.array([[a, -b], [b, a]])
    claims = [("LipschitzOperator", {"L": math.sqrt(n2)}), ("LipschitzOperator", {"L": 2 * math.sqrt(n2)}), ("LinearOperator", {"L": math.sqrt(n2)}),
              ("LinearOperator", {"L": 2 * math.sqrt(n2)})]
    if a >= 0:
        claims += [("MonotoneOperator", {}), ("StronglyMonotoneOperator", {"mu": a}), ("LipschitzStronglyMonotoneOperator", {"mu": a, "L": math.sqrt(n2)}),
                   ("NegativelyComonotoneOperator", {"rho": 0.5})]
    if a > 0:
        claims += [("CocoerciveOperator", {"beta": a / n2}), ("CocoerciveStronglyMonotoneOperator", {"mu": a, "beta": a / n2}),
                   ("CocoerciveStronglyMonotoneOperator", {"mu": a / 2, "beta": a / n2 / 2})]
    if n2 <= 1 + 1e-12:
        claims += [("NonexpansiveOperator", {})]
    if a == 0:
        claims += [("SkewSymmetricLinearOperator", {"L": abs(b)}), ("SkewSymmetricLinearOperator", {"L": 2 * abs(b) + 1})]
    if a < 0:
        claims += [("NegativelyComonotoneOperator", {"rho": -a / n2}), ("NegativelyComonotoneOperator", {"rho": -2 * a / n2})]
    return Operator("rot(%g,%g)" % (a, b), 2, images=lambda x: [M @ x], zeros=[v(0, 0)], fixed=[v(0, 0)], claims=claims, matrix=M, vdisp=v(0, 0))


def op_sym2(Q):
    Q = np.array(Q, float)
    ev = np.linalg.eigvalsh(Q)
    lo, hi = float(ev.min()), float(ev.max())
    claims = [("SymmetricLinearOperator", {"mu": lo, "L": hi}), ("SymmetricLinearOperator", {"mu": lo - 1, "L": hi + 1}), ("LinearOperator", {"L": max(abs(lo), abs(hi))}),
              ("LipschitzOperator", {"L": max(abs(lo), abs(hi))})]
    if lo >= 0:
        claims += [("MonotoneOperator", {}), ("StronglyMonotoneOperator", {"mu": lo})]
    if lo > 0:
        claims += [("CocoerciveOperator", {"beta": 1 / hi}), ("CocoerciveStronglyMonotoneOperator", {"mu": lo, "beta": 1 / hi}),
                   ("LipschitzStronglyMonotoneOperator", {"mu": lo, "L": hi})]
    return Operator("sym2(%s)" % Q.tolist(), 2, images=lambda x: [Q @ x], zeros=[v(0, 0)], fixed=[v(0, 0)], claims=claims, matrix=Q, vdisp=v(0, 0))


def op_matrix(M, name):
    M = np.array(M, float)
    s = float(np.linalg.svd(M, compute_uv=False).max()) if M.size else 0.0
    return Operator(name, M.shape[1], images=lambda x: [M @ x], claims=[("LinearOperator", {"L": max(s, 0.5)}), ("LinearOperator", {"L": 2 * s + 1})],
                    matrix=M, outdim=M.shape[0])


def op_sign():
    return Operator("sign", 1, images=lambda x: [v(t) for t in sgn_sel(x[0], -1.0, 1.0)], zeros=[v(0)], claims=[("MonotoneOperator", {}), ("NegativelyComonotoneOperator", {"rho": 0.3})])


def op_sc_sign(mu):
    return Operator("mu*x+sign(%g)" % mu, 1, images=lambda x: [v(mu * x[0] + t) for t in sgn_sel(x[0], -1.0, 1.0)], zeros=[v(0)],
                    claims=[("MonotoneOperator", {}), ("StronglyMonotoneOperator", {"mu": mu}), ("StronglyMonotoneOperator", {"mu": mu / 2})])


def op_clip():
    c = lambda t: max(-1.0, min(1.0, t))
    return Operator("clip", 1, images=lambda x: [v(c(x[0]))], zeros=[v(0)], fixed=[v(-1), v(0), v(1)], vdisp=v(0),
                    claims=[("NonexpansiveOperator", {}), ("MonotoneOperator", {}), ("CocoerciveOperator", {"beta": 1.0}), ("LipschitzOperator", {"L": 1.0}),
                            ("NegativelyComonotoneOperator", {"rho": 1.0})])


def op_translation(vv):
    vv = np.array(vv, float)
    return Operator("x-%s" % vv.tolist(), len(vv), images=lambda x: [x - vv], zeros=[vv], fixed=[], vdisp=vv,
                    claims=[("NonexpansiveOperator", {}), ("LipschitzOperator", {"L": 1.0}), ("MonotoneOperator", {}), ("CocoerciveOperator", {"beta": 1.0})])


def op_sin(L):
    return Operator("%gsin" % L, 1, images=lambda x: [v(L * math.sin(x[0]))], zeros=[v(0)], fixed=[v(0)] if L <= 1 else [],
                    claims=[("LipschitzOperator", {"L": L})] + ([("NonexpansiveOperator", {})] if L <= 1 else []), vdisp=v(0))


def op_cube():
    return Operator("x^3", 1, images=lambda x: [v(x[0] ** 3)], zeros=[v(0)], claims=[("MonotoneOperator", {})])


def op_reflection():
    M = np.array([[1.0, 0.0], [0.0, -1.0]])
    return Operator("reflection", 2, images=lambda x: [M @ x], zeros=[v(0, 0)], fixed=[v(0, 0), v(1, 0), v(-1, 0)], vdisp=v(0, 0), matrix=M,
                    claims=[("NonexpansiveOperator", {}), ("LipschitzOperator", {"L": 1.0}), ("SymmetricLinearOperator", {"mu": -1.0, "L": 1.0}), ("LinearOperator", {"L": 1.0})])


J = [[0.0, -1.0], [1.0, 0.0]]

ALL = [
    quad1(0.1), quad1(0.5), quad1(1.0), quad1(2.0), quad1(0.0), quad1(-1.0), shifted_quad1(1.0, 1.0, 0.5), shifted_quad1(0.5, -1.0, -2.0),
    lin1(1.0), lin1(0.5), lin1(0.0), abs1(1.0), abs1(2.0), relu1(1.0), huber1(1.0, 1.0), huber1(2.0, 0.5), huber1(1.0, 3.0), sqrelu1(1.0), sqrelu1(2.0),
    dist2box1(1.0), kinkquad1(2.0), kinkquad1(1.0), scabs1(0.1, 1.0), scabs1(1.0, 0.5), cos1(1.0), cos1(2.0), rsi_nonconvex1(),
    quad2([[0.1, 0], [0, 1.0]]), quad2([[1.0, 0.5], [0.5, 2.0]]), quad2([[0.55, 0.45], [0.45, 0.55]]), quad2([[1.0, 0], [0, 0.0]]),
    quad2([[2.0, 0], [0, 2.0]]), l1_2(), norm2(1.0), norm2(2.0), sc_relu2(0.1), sc_relu2(1.0), sep_huber2(1.0, 2.0),
    ind_interval(-1.0, 1.0), ind_interval(0.0, 1.0), ind_interval(0.0, 0.0), ind_box2(), ind_disc2(),
    supp_interval(1.0, 1.0), supp_interval(0.5, 1.0), supp_interval(0.0, 2.0),
    op_scale(1.0), op_scale(0.5), op_scale(2.0), op_scale(0.1), op_scale(0.0), op_scale(-1.0), op_scale(-4.0), op_scale(-10.0),
    op_rot(0.0, 1.0), op_rot(0.0, -2.0), op_rot(0.0, 0.5), op_rot(0.1, 0.995), op_rot(0.5, 0.5), op_rot(1.0, 1.0), op_rot(0.6, 0.8), op_rot(-0.2, 0.4),
    op_sym2([[0.1, 0], [0, 1.0]]), op_sym2([[0.55, 0.45], [0.45, 0.55]]), op_sym2([[-1.0, 0], [0, 1.0]]), op_sym2([[1.0, 0], [0, 1.0]]),
    op_matrix([[2.0, 0], [0, 0.0]], "rank1"), op_matrix([[1.0, 1.0]], "1x2"), op_matrix([[1.0], [-1.0]], "2x1"), op_matrix([[0.0, 0], [0, 0.0]], "zero2"),
    op_matrix([[0.0, -2.0], [2.0, 0.0]], "2J"),
    op_sign(), op_sc_sign(0.1), op_sc_sign(1.0), op_clip(), op_translation([1.0]), op_translation([0.5, -0.5]), op_sin(1.0), op_sin(2.0), op_cube(),
    op_reflection(),
]


def members_of(cls, par):
    """members claiming membership of `cls` with exactly these parameters"""
    out = []
    for m in ALL:
        for c, p in m.claims:
            if c == cls and _same_par(p, par):
                out.append(m)
                break
    return out


def _same_par(p, q):
    if set(p) != set(q):
        return False
    for k in p:
        a, b = p[k], q[k]
        if isinstance(a, list) or isinstance(b, list):
            if list(a) != list(b):
                return False
        elif a == INF or b == INF:
            if a != b:
                return False
        elif not (a == b or (isinstance(a, float) and isinstance(b, float) and abs(a - b) <= 1e-12 * max(1, abs(a)))):
            return False
    return True


def all_claims(cls):
    seen, out = [], []
    for m in ALL:
        for c, p in m.claims:
            if c == cls and not any(_same_par(p, q) for q in seen):
                seen.append(p); out.append(p)
    return out


# ---------------------------------------------------------------------------------------------------------------------
# self-tests from the class definitions
# ---------------------------------------------------------------------------------------------------------------------

def selftest(m, cls, par):
    """Returns None if member m satisfies the DEFINITION of class cls(par) on the fine grid, else a message."""
    P = m.fine()
    t = 1e-9

    def n(x):
        return float(np.linalg.norm(x))
    if m.kind == "f":
        conv = cls in ("ConvexFunction", "StronglyConvexFunction", "SmoothConvexFunction", "SmoothStronglyConvexFunction", "ConvexLipschitzFunction",
                       "SmoothConvexLipschitzFunction", "ConvexQGFunction", "ConvexIndicatorFunction", "ConvexSupportFunction", "BlockSmoothConvexFunction",
                       "SmoothStronglyConvexQuadraticFunction")
        mu = par.get("mu", 0.0) if cls in ("StronglyConvexFunction", "SmoothStronglyConvexFunction", "SmoothStronglyConvexQuadraticFunction") else 0.0
        smooth = cls in ("SmoothFunction", "SmoothConvexFunction", "SmoothStronglyConvexFunction", "SmoothConvexLipschitzFunction", "SmoothStronglyConvexQuadraticFunction")
        for x in P:
            G = m.grads(x)
            if smooth and len(G) != 1:
                return "not differentiable at %s" % x
            for g in G:
                if cls in ("ConvexLipschitzFunction", "SmoothConvexLipschitzFunction", "ConvexSupportFunction") and par.get("M", INF) != INF and n(g) > par["M"] + t:
                    return "gradient norm %g > M at %s" % (n(g), x)
                if cls == "ConvexSupportFunction" and abs(m.value(x) - g @ x) > t:
                    return "support function: f(x) != <g,x> at %s" % x
                for y in P:
                    if conv and m.value(y) < m.value(x) + g @ (y - x) + mu / 2 * n(y - x) ** 2 - t:
                        return "subgradient / strong convexity inequality fails between %s and %s" % (x, y)
                    if cls == "ConvexSupportFunction" and m.value(y) < g @ y - t:
                        return "support function: g not in C"
                    if cls == "ConvexIndicatorFunction" and (g @ (y - x) > t or m.value(x) != 0):
                        return "normal cone condition fails at %s" % x
                    if cls == "ConvexIndicatorFunction" and par.get("D", INF) != INF and n(x - y) > par["D"] + t:
                        return "diameter exceeded"
                    if smooth:
                        gy = m.grads(y)[0]
                        if n(g - gy) > par["L"] * n(x - y) + t:
                            return "gradient is not %g-Lipschitz between %s and %s" % (par["L"], x, y)
            if cls == "ConvexQGFunction":
                fstar = min(m.value(s) for s in m.stationary)
                if m.value(x) - fstar > par["L"] / 2 * m.dist_opt(x) ** 2 + t:
                    return "quadratic growth fails at %s" % x
            if cls == "RsiEbFunction":
                # the library states RSI- / EB+ with respect to THE declared stationary point: the class is read as
                # "functions with a unique minimiser x* satisfying both inequalities relative to x*"
                if len(m.stationary) != 1 or m.proj_opt is None:
                    return "no unique minimiser"
                g = G[0]
                pr = m.proj_opt(x)
                if g @ (x - pr) < par["mu"] * n(x - pr) ** 2 - t or n(g) > par["L"] * n(x - pr) + t:
                    return "RSI / EB fails at %s" % x
        if cls == "SmoothStronglyConvexQuadraticFunction":
            ev = np.linalg.eigvalsh(m.matrix)
            if ev.min() < par["mu"] - t or ev.max() > par["L"] + t:
                return "spectrum %s outside [mu, L]" % ev
            for x in P[:20]:
                if abs(m.value(x) - (0.5 * (x - m.center) @ m.matrix @ (x - m.center) + m.value(m.center))) > 1e-8:
                    return "not the stated quadratic"
        if cls == "BlockSmoothConvexFunction":
            Ls = par["L"]
            d = len(Ls)
            for x in P:
                for y in P:
                    for k in range(d):
                        blk = [k] if d == m.dim else list(range(m.dim))
                        other = [i for i in range(m.dim) if i not in blk]
                        if all(abs(x[i] - y[i]) < 1e-12 for i in other):
                            gx, gy = m.grads(x)[0], m.grads(y)[0]
                            if n(gx[blk] - gy[blk]) > Ls[k] * n(x[blk] - y[blk]) + t:
                                return "block %d gradient not %g-Lipschitz" % (k, Ls[k])
        return None
    # ---- operators
    if cls in ("LinearOperator", "SymmetricLinearOperator", "SkewSymmetricLinearOperator"):
        M = m.matrix
        if M is None:
            return "no matrix"
        for x in P[:15]:
            if n(m.grads(x)[0] - M @ x) > t:
                return "not the stated linear map"
        s = float(np.linalg.svd(M, compute_uv=False).max()) if M.size else 0.0
        if cls == "LinearOperator" and s > par["L"] + t:
            return "norm %g > L" % s
        if cls == "SymmetricLinearOperator":
            if np.abs(M - M.T).max() > t:
                return "not symmetric"
            ev = np.linalg.eigvalsh(M)
            if ev.min() < par["mu"] - t or ev.max() > par["L"] + t:
                return "spectrum outside [mu, L]"
        if cls == "SkewSymmetricLinearOperator" and (np.abs(M + M.T).max() > t or s > par["L"] + t):
            return "not skew-symmetric with norm <= L"
        return None
    for x in P:
        for y in P:
            for gx in m.grads(x):
                for gy in m.grads(y):
                    ip = (gx - gy) @ (x - y)
                    dx2, dg2 = n(x - y) ** 2, n(gx - gy) ** 2
                    if cls in ("MonotoneOperator",) and ip < -t:
                        return "not monotone"
                    if cls in ("StronglyMonotoneOperator", "LipschitzStronglyMonotoneOperator", "CocoerciveStronglyMonotoneOperator") and ip < par["mu"] * dx2 - t:
                        return "not %g-strongly monotone" % par["mu"]
                    if cls in ("CocoerciveOperator", "CocoerciveStronglyMonotoneOperator") and ip < par["beta"] * dg2 - t:
                        return "not %g-cocoercive between %s and %s" % (par["beta"], x, y)
                    if cls in ("LipschitzOperator", "LipschitzStronglyMonotoneOperator") and dg2 > par["L"] ** 2 * dx2 + t:
                        return "not %g-Lipschitz" % par["L"]
                    if cls == "NonexpansiveOperator" and dg2 > dx2 + t:
                        return "not nonexpansive"
                    if cls == "NegativelyComonotoneOperator" and ip < -par["rho"] * dg2 - t:
                        return "not %g-negatively comonotone" % par["rho"]
    return None
