"""Reference conditions of the 24 shipped classes (DESIGN.md Appendix A), transcribed from the class docstrings / the
cited interpolation theorems and instantiated on recorded samples BY IDENTITY (never by list index).

reference(cls, par, f) -> (scalars, lmis)
    scalars : list of (sense, Expression, label, (samples it is instantiated on, symmetric?))  meaning  Expression <= 0  or  Expression == 0
    lmis    : list of square numpy object arrays of Expressions (documented, possibly non-symmetric-as-written form)
The expressions are assembled with the DSL operators (whose faithfulness is C06's business) and compared as functionals.
"""
import itertools

import numpy as np

INF = float("inf")


def _pairs(S):
    """all ordered pairs of distinct samples (by identity)"""
    for a, b in itertools.product(S, repeat=2):
        if a is not b:
            yield a, b


def _upairs(S):
    for i in range(len(S)):
        for j in range(i + 1, len(S)):
            yield S[i], S[j]


def _is_stationary(t):
    return t[1].decomposition_dict == dict()


def reference(cls, par, f):
    from PEPit import Expression
    S = list(f.list_of_points)
    ST = [t for t in S if _is_stationary(t)]
    sc, lm = [], []

    cur = [None]     # (samples the current condition is instantiated on, symmetric?)

    def le(e, label="main"):
        sc.append(("inequality", e, label, cur[0]))

    def eq(e, label="main"):
        sc.append(("equality", e, label, cur[0]))

    def convex_pairs():
        for A_, B_ in _pairs(S):
            (xi, gi, fi), (xj, gj, fj) = A_, B_
            cur[0] = ((A_, B_), False)
            le(fj - fi + gj * (xi - xj), "convexity")

    if cls == "ConvexFunction":
        convex_pairs()
    elif cls == "StronglyConvexFunction":
        mu = par["mu"]
        for A_, B_ in _pairs(S):
            (xi, gi, fi), (xj, gj, fj) = A_, B_
            cur[0] = ((A_, B_), False)
            le(fj - fi + gj * (xi - xj) + mu / 2 * (xi - xj) ** 2)
    elif cls == "SmoothFunction":
        L = par["L"]
        for A_, B_ in _pairs(S):
            (xi, gi, fi), (xj, gj, fj) = A_, B_
            cur[0] = ((A_, B_), False)
            le(fj - fi - L / 4 * (xi - xj) ** 2 + 1 / 2 * (gi + gj) * (xi - xj) + 1 / (4 * L) * (gi - gj) ** 2)
    elif cls == "SmoothConvexFunction":
        L = par["L"]
        for A_, B_ in _pairs(S):
            (xi, gi, fi), (xj, gj, fj) = A_, B_
            cur[0] = ((A_, B_), False)
            le(fj - fi + gj * (xi - xj) + 1 / (2 * L) * (gi - gj) ** 2)
    elif cls == "SmoothStronglyConvexFunction":
        mu, L = par["mu"], par["L"]
        for A_, B_ in _pairs(S):
            (xi, gi, fi), (xj, gj, fj) = A_, B_
            cur[0] = ((A_, B_), False)
            le(fj - fi + gj * (xi - xj) + 1 / (2 * L) * (gi - gj) ** 2
               + mu / (2 * (1 - mu / L)) * (xi - xj - 1 / L * (gi - gj)) ** 2)
    elif cls == "ConvexLipschitzFunction":
        convex_pairs()
        for A_ in S:
            (xi, gi, fi) = A_
            cur[0] = ((A_,), False)
            le(gi ** 2 - par["M"] ** 2, "lipschitz")
    elif cls == "SmoothConvexLipschitzFunction":
        L = par["L"]
        for A_, B_ in _pairs(S):
            (xi, gi, fi), (xj, gj, fj) = A_, B_
            cur[0] = ((A_, B_), False)
            le(fj - fi + gj * (xi - xj) + 1 / (2 * L) * (gi - gj) ** 2)
        for A_ in S:
            (xi, gi, fi) = A_
            cur[0] = ((A_,), False)
            le(gi ** 2 - par["M"] ** 2, "lipschitz")
    elif cls == "ConvexQGFunction":
        L = par["L"]
        convex_pairs()
        for s in ST:
            for t in S:
                if t is s:
                    continue
                (xs, gs, fs), (xj, gj, fj) = s, t
                cur[0] = ((s, t), False)
                le(fj - fs + gj * (xs - xj) + 1 / (2 * L) * gj ** 2, "quadratic-growth")
    elif cls == "RsiEbFunction":
        mu, L = par["mu"], par["L"]
        for s in ST:
            for t in S:
                if t is s:
                    continue
                (xs, gs, fs), (xj, gj, fj) = s, t
                cur[0] = ((s, t), False)
                le(mu * (xj - xs) ** 2 - gj * (xj - xs), "rsi")
                le(gj ** 2 - L ** 2 * (xj - xs) ** 2, "eb")
    elif cls == "ConvexIndicatorFunction":
        for A_ in S:
            (xi, gi, fi) = A_
            cur[0] = ((A_,), False)
            eq(fi, "value")
        for A_, B_ in _pairs(S):
            (xi, gi, fi), (xj, gj, fj) = A_, B_
            cur[0] = ((A_, B_), False)
            le(gj * (xi - xj), "normal-cone")
            if par.get("D", INF) != INF:
                le((xi - xj) ** 2 - par["D"] ** 2, "diameter")
    elif cls == "ConvexSupportFunction":
        for A_ in S:
            (xi, gi, fi) = A_
            cur[0] = ((A_,), False)
            eq(gi * xi - fi, "fenchel")
            if par.get("M", INF) != INF:
                le(gi ** 2 - par["M"] ** 2, "lipschitz")
        for A_, B_ in _pairs(S):
            (xi, gi, fi), (xj, gj, fj) = A_, B_
            cur[0] = ((A_, B_), False)
            le(xj * (gi - gj), "convexity")
    elif cls == "BlockSmoothConvexFunction":
        part = f.partition
        for A_, B_ in _pairs(S):
            (xi, gi, fi), (xj, gj, fj) = A_, B_
            cur[0] = ((A_, B_), False)
            for k in range(part.get_nb_blocks()):
                gik, gjk = part.get_block(gi, k), part.get_block(gj, k)
                le(fj - fi + gj * (xi - xj) + 1 / (2 * par["L"][k]) * (gik - gjk) ** 2)
    elif cls == "SmoothStronglyConvexQuadraticFunction":
        mu, L = par["mu"], par["L"]
        xs, _, fs = f.list_of_stationary_points[0]
        for A_ in S:
            (xi, gi, fi) = A_
            cur[0] = ((A_,), False)
            eq(fi - fs - 0.5 * (xi - xs) * gi, "value")
        for A_, B_ in _upairs(S):
            (xi, gi, fi), (xj, gj, fj) = A_, B_
            cur[0] = ((A_, B_), True)
            eq((xi - xs) * gj - (xj - xs) * gi, "symmetry")
        n = len(S)
        T = np.empty((n, n), dtype=object)
        for i, (xi, gi, fi) in enumerate(S):
            for j, (xj, gj, fj) in enumerate(S):
                T[i, j] = (gi - mu * (xi - xs)) * (L * (xj - xs) - gj)
        lm.append(T)
    elif cls in ("CocoerciveOperator", "CocoerciveStronglyMonotoneOperator", "LipschitzOperator",
                 "LipschitzStronglyMonotoneOperator", "MonotoneOperator", "NegativelyComonotoneOperator",
                 "NonexpansiveOperator", "StronglyMonotoneOperator"):
        for A_, B_ in _upairs(S):
            (xi, gi, fi), (xj, gj, fj) = A_, B_
            cur[0] = ((A_, B_), True)
            dx, dg = xi - xj, gi - gj
            if cls in ("CocoerciveOperator", "CocoerciveStronglyMonotoneOperator"):
                le(par["beta"] * dg ** 2 - dg * dx, "cocoercivity")
            if cls in ("CocoerciveStronglyMonotoneOperator", "LipschitzStronglyMonotoneOperator", "StronglyMonotoneOperator"):
                le(par["mu"] * dx ** 2 - dg * dx, "strong-monotonicity")
            if cls in ("LipschitzOperator", "LipschitzStronglyMonotoneOperator"):
                le(dg ** 2 - par["L"] ** 2 * dx ** 2, "lipschitz")
            if cls == "MonotoneOperator":
                le(-1 * (dg * dx))
            if cls == "NegativelyComonotoneOperator":
                le(-1 * (dg * dx) - par["rho"] * dg ** 2)
            if cls == "NonexpansiveOperator":
                le(dg ** 2 - dx ** 2)
        if cls == "NonexpansiveOperator" and getattr(f, "v", None) is not None:
            for A_ in S:
                (xi, gi, fi) = A_
                cur[0] = ((A_,), False)
                le(f.v ** 2 - (xi - gi) * f.v, "displacement")
    elif cls == "LinearOperator":
        L = par["L"]
        TS = list(f.T.list_of_points)
        for A_ in S:
            for B_ in TS:
                (xi, yi, fi), (uj, vj, hj) = A_, B_
                cur[0] = ((A_, B_), False)
                eq(xi * vj - yi * uj, "adjoint")
        for samples in (S, TS):
            n = len(samples)
            T = np.empty((n, n), dtype=object)
            for i, (xi, yi, _) in enumerate(samples):
                for j, (xj, yj, _) in enumerate(samples):
                    T[i, j] = L ** 2 * xi * xj - yi * yj
            lm.append(T)
    elif cls == "SkewSymmetricLinearOperator":
        L = par["L"]
        for i in range(len(S)):
            for j in range(i, len(S)):          # including the diagonal: X^T Y is antisymmetric
                (xi, gi, _), (xj, gj, _) = S[i], S[j]
                cur[0] = ((S[i], S[j]), True)
                eq(xi * gj + xj * gi, "antisymmetry-diagonal" if i == j else "antisymmetry")
        n = len(S)
        T = np.empty((n, n), dtype=object)
        for i, (xi, gi, _) in enumerate(S):
            for j, (xj, gj, _) in enumerate(S):
                T[i, j] = L ** 2 * xi * xj - gi * gj
        lm.append(T)
    elif cls == "SymmetricLinearOperator":
        mu, L = par["mu"], par["L"]
        for A_, B_ in _upairs(S):
            (xi, gi, _), (xj, gj, _) = A_, B_
            cur[0] = ((A_, B_), True)
            eq(xi * gj - xj * gi, "symmetry")
        n = len(S)
        T = np.empty((n, n), dtype=object)
        for i, (xi, gi, _) in enumerate(S):
            for j, (xj, gj, _) in enumerate(S):
                T[i, j] = (gi - mu * xi) * (L * xj - gj)
        lm.append(T)
    else:
        raise KeyError(cls)
    return sc, lm
