"""Observation of the problem actually handed to the solver (C05, C11, C12).

* `recording()` swaps the two wrapper classes in PEPit.wrappers.WRAPPERS for thin subclasses that log every
  send_constraint_to_solver / send_lmi_constraint_to_solver call (argument identity, solver rows before/after).  No
  source change: the registry is a module-level dict.
* `posed_cvxpy(wrapper)` recovers, from the cvxpy Problem that was built, the affine functional of every constraint and
  of the objective by evaluating it on a complete basis of (G symmetric, F, auxiliary LMI variables) plus the origin -
  an affine map is determined by these values, so this is exhaustive, not sampled.
* `posed_mosek(task)` reads the same from the data recorded by the stand-in mosek Task.

Both return a *posed problem*:
    dict(nP, nF, rows=[dict(sense '<=' | '==', vec, lmi=None | (k, i, j))], lmis=[size...], objective=vec, objsense)
where vec = coefficients of the monomials <p_i,p_j> (i<=j, row-major upper triangle), then of the leaf expressions, then
the constant, meaning  vec . (monomials, F, 1)  <= 0  /  == 0 ; an LMI-entry row means  M_k[i,j] == vec . (...)."""
import contextlib

import numpy as np


@contextlib.contextmanager
def recording():
    import PEPit.wrappers as W
    from PEPit.wrappers.cvxpy_wrapper import CvxpyWrapper
    from PEPit.wrappers.mosek_wrapper import MosekWrapper

    class RecCvxpy(CvxpyWrapper):
        def __init__(self, *a, **k):
            super().__init__(*a, **k)
            self.rec_calls = []

        def send_constraint_to_solver(self, constraint, *a, **k):
            b = len(self._list_of_solver_constraints)
            out = super().send_constraint_to_solver(constraint, *a, **k)
            self.rec_calls.append(("scalar", constraint, b, len(self._list_of_solver_constraints)))
            return out

        def send_lmi_constraint_to_solver(self, psd_counter, psd_matrix):
            b = len(self._list_of_solver_constraints)
            out = super().send_lmi_constraint_to_solver(psd_counter, psd_matrix)
            self.rec_calls.append(("lmi", psd_matrix, b, len(self._list_of_solver_constraints)))
            return out

    class RecMosek(MosekWrapper):
        def __init__(self, *a, **k):
            super().__init__(*a, **k)
            self.rec_calls = []

        def send_constraint_to_solver(self, constraint, *a, **k):
            b = self.task.getnumcon()
            out = super().send_constraint_to_solver(constraint, *a, **k)
            tracked = k.get("track", a[0] if a else True)
            self.rec_calls.append(("scalar" if tracked else "untracked", constraint, b, self.task.getnumcon()))
            return out

        def send_lmi_constraint_to_solver(self, psd_counter, psd_matrix):
            b = self.task.getnumcon()
            nb = len(self.task.barvardim)
            out = super().send_lmi_constraint_to_solver(psd_counter, psd_matrix)
            self.rec_calls.append(("lmi", psd_matrix, b, self.task.getnumcon(), nb))
            return out

    old = dict(W.WRAPPERS)
    W.WRAPPERS["cvxpy"], W.WRAPPERS["mosek"] = RecCvxpy, RecMosek
    try:
        yield
    finally:
        W.WRAPPERS.update(old)


def _tri(n):
    return np.triu_indices(n)


def _is_identity_of(expr, var):
    """expr == var as a function of var (checked on the origin and a complete symmetric basis)."""
    n = var.shape[0]
    if expr.shape != var.shape:
        return False
    old = var.value
    try:
        var.value = np.zeros((n, n))
        if np.abs(np.asarray(expr.value)).max(initial=0.0) != 0:
            return False
        for i in range(n):
            for j in range(i, n):
                Z = np.zeros((n, n)); Z[i, j] = 1; Z[j, i] = 1
                var.value = Z
                if not np.array_equal(np.asarray(expr.value), Z):
                    return False
        return True
    finally:
        var.value = old


def posed_cvxpy(w):
    """Posed problem of a CvxpyWrapper after generate_problem / solve (uses w.prob as it is now).
    The values of the cvxpy variables (the solver's solution) are saved first and restored afterwards."""
    saved = [(var, None if var.value is None else np.array(var.value, copy=True)) for var in w.prob.variables()]
    try:
        return _posed_cvxpy(w)
    finally:
        for var, val in saved:
            var.value = val


def _posed_cvxpy(w):
    import cvxpy as cp
    prob = w.prob
    G, F = w.G, w.F
    nP, nF = G.shape[0], F.shape[0]
    cons = list(prob.constraints)
    aux = []          # auxiliary symmetric matrix variables, in order of appearance
    kinds = []
    for c in cons:
        tn = type(c).__name__
        if tn == "PSD":
            vs = c.expr.variables()
            if len(vs) == 1 and vs[0] is G and _is_identity_of(c.expr, G):
                kinds.append(("gram",))
            elif len(vs) == 1 and vs[0] is not F and _is_identity_of(c.expr, vs[0]):
                aux.append(vs[0])
                kinds.append(("psd", len(aux) - 1))
            else:
                kinds.append(("psd-other",))
        elif tn == "Equality":
            kinds.append(("==",))
        elif tn == "Inequality":
            kinds.append(("<=",))
        else:
            kinds.append(("other", tn))
    others = [v for v in prob.variables() if v is not G and v is not F and not any(v is a for a in aux)]
    scal = [(i, c) for i, c in enumerate(cons) if kinds[i][0] in ("==", "<=")]

    def zero_all():
        G.value = np.zeros((nP, nP))
        if nF:
            F.value = np.zeros(nF)
        for a in aux + others:
            a.value = np.zeros(a.shape)

    def evaluate():
        return np.array([float(np.asarray(c.expr.value).reshape(-1)[0]) if np.asarray(c.expr.value).size == 1 else np.nan
                         for _, c in scal] + [float(prob.objective.expr.value)])
    zero_all()
    base = evaluate()
    iu = _tri(nP)
    ncol = len(iu[0]) + nF
    coef = np.zeros((len(scal) + 1, ncol))
    col = 0
    for i, j in zip(*iu):
        Z = np.zeros((nP, nP)); Z[i, j] = 1; Z[j, i] = 1
        G.value = Z
        coef[:, col] = evaluate() - base
        col += 1
    G.value = np.zeros((nP, nP))
    for k in range(nF):
        z = np.zeros(nF); z[k] = 1
        F.value = z
        coef[:, col] = evaluate() - base
        col += 1
    if nF:
        F.value = np.zeros(nF)
    # dependence on auxiliary variables: each LMI-entry equality must involve exactly one entry of one aux variable
    auxdep = [dict() for _ in scal]
    obj_aux = []
    for k, a in enumerate(aux):
        n = a.shape[0]
        for i in range(n):
            for j in range(i, n):
                Z = np.zeros((n, n)); Z[i, j] = 1; Z[j, i] = 1
                a.value = Z
                d = evaluate() - base
                for r in np.nonzero(np.abs(d[:-1]) > 0)[0]:
                    auxdep[r][(k, i, j)] = d[r]
                if abs(d[-1]) > 0:
                    obj_aux.append((k, i, j))
        a.value = np.zeros((n, n))
    rows = []
    problems = []
    if obj_aux:
        problems.append("the objective depends on auxiliary LMI variables %s" % obj_aux[:3])
    for r, (ci, c) in enumerate(scal):
        vec = np.concatenate([coef[r], [base[r]]])
        dep = auxdep[r]
        if not dep:
            rows.append(dict(sense=kinds[ci][0], vec=vec, lmi=None, index=ci))
        else:
            if kinds[ci][0] != "==" or len(dep) != 1:
                problems.append("constraint %d couples %d auxiliary entries with sense %s" % (ci, len(dep), kinds[ci][0]))
                rows.append(dict(sense=kinds[ci][0], vec=vec, lmi=("bad",), index=ci))
                continue
            (k, i, j), cm = list(dep.items())[0]
            # cm * M[i,j] + vec.(...) == 0   ->   M[i,j] == -vec/cm
            rows.append(dict(sense="==", vec=-vec / cm, lmi=(k, i, j), index=ci))
    obj = np.concatenate([coef[-1], [base[-1]]])
    objsense = "max" if type(prob.objective).__name__ == "Maximize" else "min"
    nonaffine = [i for i, c in scal if not c.expr.is_affine()]
    if nonaffine:
        problems.append("non-affine constraint expressions: %s" % nonaffine[:5])
    return dict(nP=nP, nF=nF, rows=rows, lmis=[a.shape[0] for a in aux], objective=obj, objsense=objsense,
                kinds=kinds, problems=problems, n_gram=sum(1 for k in kinds if k[0] == "gram"),
                n_other=sum(1 for k in kinds if k[0] in ("other", "psd-other")) + len(others))


def posed_mosek(task, nP, nF):
    """Posed problem from the stand-in Task's recorded data.  Bar-variable 0 must be the Gram matrix."""
    problems = []
    if not task.barvardim or task.barvardim[0] != nP:
        problems.append("bar-variable 0 has dimension %s, Gram matrix %d" % (task.barvardim[:1], nP))
    iu = _tri(nP)
    rows = []
    numvar = task.numvar
    # variables beyond the leaf expressions must be fixed at 0 (they cannot carry anything)
    free = [j for j, (key, l, u) in enumerate(task.varbound) if not (key.name == "fx" and l == 0.0 and u == 0.0)]
    for j in free:
        key, l, u = task.varbound[j]
        if key.name != "fr":
            problems.append("variable %d has bound %s [%g,%g]" % (j, key.name, l, u))
    if any(j >= nF for j in free):
        problems.append("a variable beyond the %d leaf expressions is not fixed at 0" % nF)
    for i, r in enumerate(task.rows):
        A = task.barA(i, 0) if 0 in r["bar"] else np.zeros((nP, nP))
        M = A + A.T - np.diag(np.diag(A))          # monomial coefficients
        a = np.zeros(max(numvar, nF))
        for j, v in r["a"].items():
            a[j] = v
        if np.abs(a[nF:]).max(initial=0.0) > 0:
            problems.append("row %d uses a variable beyond the leaf expressions" % i)
        key, l, u = r["bound"]
        others = [j for j in r["bar"] if j != 0]
        lmi = None
        if others:
            if len(others) != 1:
                problems.append("row %d couples %d auxiliary matrix variables" % (i, len(others)))
                lmi = ("bad",)
            else:
                j = others[0]
                B = task.barA(i, j)
                nz = np.argwhere(np.abs(B) > 0)
                if len(nz) == 1 and nz[0][0] == nz[0][1]:
                    p = q = int(nz[0][0]); cm = B[p, p]
                elif len(nz) == 2 and nz[0][0] == nz[1][1] and nz[0][1] == nz[1][0]:
                    p, q = sorted((int(nz[0][0]), int(nz[0][1]))); cm = 2 * B[q, p]
                else:
                    problems.append("row %d: auxiliary selector has %d entries" % (i, len(nz)))
                    p = q = 0; cm = 1.0
                lmi = (j - 1, p, q, cm)
        if key.name == "up":
            sense, const = "<=", -u
        elif key.name == "fx":
            sense, const = "==", -u
        elif key.name == "lo":
            sense, const = ">=", -l
        else:
            sense, const = key.name, 0.0
        vec = np.concatenate([M[iu], a[:nF], [const]])
        if lmi is not None and lmi[0] != "bad":
            k, p, q, cm = lmi
            # vec.(...) + cm * M_k[p,q] == 0  ->  M_k[p,q] == -vec/cm
            rows.append(dict(sense=sense, vec=-vec / cm, lmi=(k, p, q), index=i))
        else:
            rows.append(dict(sense=sense, vec=vec, lmi=lmi, index=i))
    obj = np.zeros(len(iu[0]) + nF + 1)
    C = task.barC(0) if 0 in task.barc else np.zeros((nP, nP))
    Mc = C + C.T - np.diag(np.diag(C))
    obj[:len(iu[0])] = Mc[iu]
    for j, v in task.c.items():
        if j < nF:
            obj[len(iu[0]) + j] = v
        elif v != 0:
            problems.append("objective coefficient on variable %d beyond the leaf expressions" % j)
    for j in task.barc:
        if j != 0 and np.abs(task.barC(j)).max(initial=0.0) > 0:
            problems.append("objective uses auxiliary matrix variable %d" % j)
    return dict(nP=nP, nF=nF, rows=rows, lmis=list(task.barvardim[1:]), objective=obj,
                objsense="max" if task.sense.name == "maximize" else "min", problems=problems)


def reference_vec(expr, nP, nF):
    from mc import refalg as R
    return R.functional_vec(expr, nP, nF)


def declared_walk(pep):
    """Independent walk over everything the user declared + class constraints of leaf functions + partitions.
    Returns (scalar constraints [objects], lmis [objects], metrics [expressions])."""
    from PEPit.function import Function
    from PEPit.block_partition import BlockPartition
    scal, lmis = [], []
    scal += list(pep.list_of_constraints)
    lmis += list(pep.list_of_psd)
    funcs = list(Function.list_of_functions)
    for f in list(funcs):
        # the transposed twin of a linear operator is a function object of its own: whatever the registry says, what the
        # user declared on it is part of the model
        t_ = getattr(f, "T", None)
        if t_ is not None and isinstance(t_, Function) and not any(t_ is g for g in funcs):
            funcs.append(t_)
    for f in funcs:
        scal += list(f.list_of_constraints)
        lmis += list(f.list_of_psd)
        if f.get_is_leaf():
            scal += list(f.list_of_class_constraints)
            lmis += list(f.list_of_class_psd)
    for part in BlockPartition.list_of_partitions:
        scal += list(part.list_of_constraints)
    return scal, lmis, list(pep.list_of_performance_metrics)
