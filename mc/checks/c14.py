"""C14 - dimension-reduction post-processing keeps the guarantee it started from.

Every (model, heuristic, tolerance, regularisation, back-end, mode) combination of a finite grid is solved and compared
with the same model solved without heuristic: dual bound unchanged and its certificate valid for the original constraint
list, primal value within the stated tolerance of the optimum, instance feasible and equal to the solver's own final
solution, trace not increased by the trace heuristic."""
import itertools

import numpy as np

from mc import models, solving, recording as REC, certificate as CERT

PROPERTY = "C14"
LEVEL = "model_checking"

MODELS = {
    "gd1": dict(cls="SmoothStronglyConvexFunction", par=0, pattern="sf", metric="dist", init="dist", n=1),
    "gd2": dict(cls="SmoothStronglyConvexFunction", par=1, pattern="sl", metric="fval", init="dist", n=2),
    "gd3": dict(cls="SmoothConvexFunction", par=0, pattern="sf", metric="fval", init="dist", n=3),
    "ppa": dict(cls="ConvexFunction", par=0, pattern="sf", metric="fval", init="dist", n=2),
    "quad": dict(cls="SmoothStronglyConvexQuadraticFunction", par=0, pattern="sf", metric="dist", init="dist", n=1),
    "comp": dict(cls="SmoothStronglyConvexFunction", par=0, pattern="sf", comp="sum", step="prox", metric="dist", init="dist", n=1),
    "lmi": dict(cls="SmoothConvexFunction", par=0, pattern="sf", metric="fval", init="dist", n=1, extras=["lmi_sym"]),
    "noise": dict(cls="SmoothStronglyConvexFunction", par=0, pattern="sf", metric="dist", init="dist", n=1, extras=["noise"]),
    "block": dict(cls="BlockSmoothConvexFunction", par=0, pattern="sf", metric="fval", init="dist", n=2),
    "big": dict(cls="SmoothStronglyConvexFunction", par=0, pattern="sf", metric="dist", init="dist100", n=1),
    "bigf": dict(cls="SmoothConvexFunction", par=1, pattern="sf", metric="fval", init="dist100", n=1),
    "lips": dict(cls="LipschitzStronglyMonotoneOperator", par=0, pattern="sf", metric="dist", init="dist", n=2),
    "nonexp": dict(cls="NonexpansiveOperator", par=0, pattern="sf", metric="grad", init="dist", n=2),
    "inexact": dict(cls="SmoothStronglyConvexFunction", par=0, pattern="sf", step="inexact_rel", metric="dist", init="dist", n=1),
    # the objective is not the first declared metric
    "metrics": dict(cls="SmoothStronglyConvexFunction", par=0, pattern="sf", metric="dist", init="dist", n=1, extras=["two_metrics_low"]),
    # leaves (a point and a function value) are created AFTER the objective, while the class constraints are generated
    "qg_none": dict(cls="ConvexQGFunction", par=0, pattern="none", metric="negdist", init="dist", n=1),
    "rsi_none": dict(cls="RsiEbFunction", par=0, pattern="none", metric="negdist", init="dist", n=2),
    # an optimum (9.5e-7) below every tolerance of the grid
    "tiny": dict(cls="SmoothStronglyConvexFunction", par=3, pattern="sf", metric="dist", init="dist", n=5),
}
HEUR = ["trace", "logdet1", "logdet2", "logdet3"]
TOLS = [1e-6, 1e-4, 1e-3, 1e-2, 0, 1e-7]
REGS = [1e-3, 1e-2]


def grid(tier):
    out = []
    names = list(MODELS)
    for mi, m in enumerate(names):
        for hi, h in enumerate(HEUR):
            for ti, t in enumerate(TOLS):
                for ri, rg in enumerate(REGS if h != "trace" else [1e-3]):
                    for be in ("cvxpy", "mosek"):
                        for mode in ("dual", "primal"):
                            if tier == "quick":
                                # every third point of the product, rotated so that every pair of factor values occurs
                                bi, oi = int(be == "mosek"), int(mode == "primal")
                                if (mi + hi + 2 * ti + ri + bi + 2 * oi) % 3 != 0:
                                    continue
                            out.append(dict(model=m, heuristic=h, tol=t, reg=rg, backend=be, mode=mode))
    # the library's other solver (the one its default path ends up with), run to high accuracy so that the stated tolerance is observable
    for m in ("ppa", "lmi", "quad"):
        for h in ("trace", "logdet1"):
            for t in (1e-4, 1e-2):
                out.append(dict(model=m, heuristic=h, tol=t, reg=1e-3, backend="cvxpy", mode="primal", solver="SCS"))
    return out


def reference(mname, backend):
    ctx = models.build(MODELS[mname])
    r = solving.solve(ctx.pep, backend=backend, mode="dual")
    if r["exc"] is not None or r["value"] is None or r["status"] != "optimal":
        return None
    G = np.array(ctx.pep.G_value, dtype=float)
    return dict(dual=float(r["value"]), primal=float(ctx.pep.objective.eval()), trace=float(np.trace(G)))


def judge(case):
    from PEPit.point import Point
    probs = []
    be = case["backend"]
    ref = reference(case["model"], be)
    if ref is None:
        return [], "reference-not-optimal"
    ctx = models.build(MODELS[case["model"]])
    pep = ctx.pep
    with REC.recording():
        if case.get("solver") == "SCS":
            r = solving.solve(pep, backend=be, mode=case["mode"], dr=case["heuristic"], tol_dr=case["tol"], reg=case["reg"],
                              solver="SCS", extra={"eps": 1e-10, "max_iters": 200000})
            if r["exc"] is None and any(st_ != "optimal" for st_ in r.get("statuses", [])):
                return [], "scs-not-converged"
        else:
            r = solving.solve(pep, backend=be, mode=case["mode"], dr=case["heuristic"], tol_dr=case["tol"], reg=case["reg"])
    if r["exc"] is not None:
        n = type(r["exc"]).__name__
        if n == "SolverError":
            return [], "solver-error"
        if any(st_ not in ("optimal", "optimal_inaccurate") for st_ in r.get("statuses", [])[1:]):
            # the SOLVER declared a heuristic problem infeasible / unbounded (tolerance 0 leaves it no room): environment
            return [], "heuristic-problem-not-solved:%s" % r["statuses"][-1]
        return [("raised:%s:%s" % (be, n), "solve with %s raised %s: %s" % (case["heuristic"], n, str(r["exc"])[:150]))], "raised"
    if r["value"] is None:
        return [("no-value:%s" % be, "the model has optimum %.6g but solve with %s returned None" % (ref["dual"], case["heuristic"]))], "none"
    if r["status"] not in ("optimal",):
        # the solver calls its last answer inaccurate: tolerances say nothing, but the instance handed to the user must still be
        # the solver's own last solution (pure linear algebra: Gram reproduction and leaf values against the solver's G and F)
        pi = []
        try:
            if be == "cvxpy":
                sG_, sF_ = pep.wrapper.G.value, pep.wrapper.F.value
            else:
                sG_, sF_ = pep.wrapper.task.sol["barx"][0], pep.wrapper.task.sol["xx"]
            if sG_ is not None and r["status"] in ("optimal_inaccurate",):
                G_ = np.array(pep.G_value, dtype=float)
                F_ = np.array(pep.F_value, dtype=float)
                if G_.shape == np.shape(sG_) and np.abs(G_ - np.asarray(sG_, float)).max(initial=0.0) > 1e-6 * max(1.0, np.abs(G_).max(initial=0.0)):
                    pi.append(("instance:gram-not-the-solvers:%s" % be, "after %s (last solver status %s) PEP.G_value differs from the solver's final "
                               "Gram matrix by %.3g" % (case["heuristic"], r["status"], np.abs(G_ - np.asarray(sG_, float)).max())))
                nF_ = min(len(F_), len(np.ravel(sF_)))
                if np.abs(F_[:nF_] - np.ravel(sF_)[:nF_]).max(initial=0.0) > 1e-6 * max(1.0, np.abs(F_).max(initial=0.0)):
                    pi.append(("instance:values-not-the-solvers:%s" % be, "PEP.F_value differs from the solver's final values"))
        except Exception:
            pass
        return pi, "heuristic-solve:%s" % r["status"]
    if r.get("first_status") not in (None, "optimal"):
        return [], "first-solve:%s" % r.get("first_status")      # the certificate comes from the first solver call
    tol = solving.tolerance(be, "CLARABEL")
    eps = 20 * tol * max(1.0, abs(ref["dual"]))
    calls = getattr(pep.wrapper, "rec_calls", None) or []
    sent_c = [c[1] for c in calls if c[0] == "scalar"]
    sent_m = [c[1] for c in calls if c[0] == "lmi"]
    # dual bound and certificate of the ORIGINAL problem
    try:
        cert = CERT.certificate(pep, constraints=sent_c, psds=sent_m)
        sc = cert["scale"]
        if cert["resid"] > tol * sc and not (cert["asym_pairs"] > 0 and cert["resid_after_asym"] <= tol * sc):
            probs.append(("certificate:identity:%s" % be, "after %s the certificate identity fails by %.2e (scale %.2e)" % (case["heuristic"], cert["resid"], sc)))
        elif abs(cert["const"] - ref["dual"]) > eps:
            probs.append(("certificate:bound-changed:%s" % be, "the certificate's constant is %.8g, the bound without heuristic %.8g" % (cert["const"], ref["dual"])))
        if cert["lam_min"] < -tol * max(1, sc) or cert["psd_min"] < -tol * max(1, sc):
            probs.append(("certificate:sign:%s" % be, "multiplier sign / PSD violated after the heuristic (%.2e / %.2e)" % (cert["lam_min"], cert["psd_min"])))
    except Exception as e:
        probs.append(("certificate:raised:%s:%s" % (be, type(e).__name__), str(e)[:150]))
    for k, m in CERT.wrapper_duals(pep):
        probs.append((k + ":" + be, m + " (after %s)" % case["heuristic"]))
    val = float(r["value"])
    if case["mode"] == "dual":
        if abs(val - ref["dual"]) > eps:
            probs.append(("dual-value-changed:%s" % be, "dual mode returned %.8g with %s, %.8g without" % (val, case["heuristic"], ref["dual"])))
    else:
        lo, hi = ref["dual"] - case["tol"] - eps, ref["dual"] + eps
        if not (lo <= val <= hi):
            probs.append(("primal-out-of-tolerance:%s" % be, "primal value %.8g outside [optimum - tol, optimum] = [%.8g, %.8g] (tol %g)"
                          % (val, ref["dual"] - case["tol"], ref["dual"], case["tol"])))
    try:
        primal = float(pep.objective.eval())
        if not (ref["dual"] - case["tol"] - eps <= primal <= ref["dual"] + eps):
            probs.append(("instance-objective-out-of-tolerance:%s" % be, "the returned instance attains %.8g, optimum %.8g, tol %g" % (primal, ref["dual"], case["tol"])))
        sG = sF = None
        try:
            if be == "cvxpy":
                sG, sF = pep.wrapper.G.value, pep.wrapper.F.value
            else:
                sol = pep.wrapper.task.sol
                sG, sF = sol["barx"][0], sol["xx"]
        except Exception:
            pass
        from mc.solved import held_objects
        for k, m in CERT.instance(pep, held=held_objects(ctx), tol=10 * tol, solver_G=sG, solver_F=sF):
            probs.append((k + ":" + be, m))
        if case["heuristic"] == "trace":
            tr = float(np.trace(np.array(pep.G_value, dtype=float)))
            if tr > ref["trace"] + 50 * tol * max(1.0, ref["trace"]):
                probs.append(("trace-increased:%s" % be, "trace of the Gram matrix %.8g after the trace heuristic, %.8g before" % (tr, ref["trace"])))
    except Exception as e:
        probs.append(("instance:raised:%s:%s" % (be, type(e).__name__), str(e)[:150]))
    seen, out = set(), []
    for k, m in probs:
        if k not in seen:
            seen.add(k); out.append((k, m))
    return out, "compared"


CHUNK = 6


def shards(tier):
    n = len(grid(tier))
    return [dict(lo=lo, hi=min(n, lo + CHUNK)) for lo in range(0, n, CHUNK)]


def run_shard(shard, tier):
    cs = grid(tier)[shard["lo"]:shard["hi"]]
    ev = nontriv = 0
    outcomes, viol, samples = {}, [], []
    for case in cs:
        probs, label = judge(case)
        ev += 1
        nontriv += label == "compared"
        oc = "%s:%s" % (case["heuristic"], label)
        outcomes[oc] = outcomes.get(oc, 0) + 1
        for k, m in probs:
            viol.append(dict(key=k, msg=m, case=case))
        if not samples and label == "compared":
            samples.append(case)
    return dict(evaluations=ev, states=ev, transitions=2 * ev, nontrivial=int(nontriv), outcomes=outcomes, violations=viol,
                samples=samples, extra={})


def replay(case):
    probs, _ = judge(case)
    return [dict(key=k, msg=m, case=case) for k, m in probs]


def meta(tier):
    return dict(
        rule="grid of %d models (normalised and not, with LMI, partition, composite, small-eigenvalue direction, operators) x "
             "heuristics %s x tolerances %s x regularisations %s x {cvxpy, MOSEK stand-in} x {dual, primal}: %s; each case "
             "is compared with the same model solved without heuristic. transitions = solves."
             % (len(MODELS), HEUR, TOLS, REGS, "full product" if tier != "quick" else "every third point of the product (rotated)"),
        bounds=dict(cases=len(grid(tier))),
        exhaustive=True,
        assumptions=["a solver exception / non-optimal status inside a heuristic re-solve is an environment failure: counted, "
                     "not judged", "solver tolerance 2e-6 relative (CLARABEL), x20 on value comparisons"],
        trusted_base=["mc/certificate.py", "mc/mosek_standin/mosek/__init__.py"],
    )
