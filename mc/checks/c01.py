"""C01 - the returned bound is backed by a complete, checkable dual certificate.

Every model of the grammar (mc.models) x configuration (back-end, solver, reduction, verbosity) is solved on the real
library; the multipliers it exposes are recombined by an independent checker (mc.certificate) into the identity
objective - tau = sum(lambda x constraint) - <residual, Gram> - sum <S_k, LMI_k>, in refalg's canonical form."""
from mc import models, solved

PROPERTY = "C01"
LEVEL = "model_checking"
WHICH = "c01"
CHUNK = 12


def config_plan(tier):
    """[(config name, predicate on (index, spec))]"""
    if tier == "quick":
        return [("cvx-clarabel-dual", lambda i, s: True),
                ("msk-dual", lambda i, s: i % 2 == 0 or "extras" in s),
                ("cvx-default-dual", lambda i, s: i % 7 == 0),
                ("cvx-clarabel-trace", lambda i, s: i % 9 == 0),
                ("msk-trace", lambda i, s: i % 31 == 0),
                ("cvx-clarabel-v1", lambda i, s: i % 45 == 0),
                ("cvx-clarabel-v2", lambda i, s: i % 90 == 0)]
    return [("cvx-clarabel-dual", lambda i, s: True), ("msk-dual", lambda i, s: True),
            ("cvx-default-dual", lambda i, s: i % 3 == 0), ("cvx-clarabel-trace", lambda i, s: i % 3 == 1),
            ("msk-trace", lambda i, s: i % 5 == 0), ("cvx-clarabel-logdet1", lambda i, s: i % 11 == 0),
            ("cvx-clarabel-v1", lambda i, s: i % 25 == 0), ("cvx-clarabel-v2", lambda i, s: i % 50 == 0),
            ("msk-v1", lambda i, s: i % 50 == 1)]


def all_cases(tier):
    specs = models.enumerate_specs(tier) + [models.big_spec(12)]
    cases = []
    for cfg, pred in config_plan(tier):
        for i, s in enumerate(specs):
            if pred(i, s):
                cases.append((s, cfg))
    return cases


def example_cases(tier):
    """shipped examples as models: (entry name, kwargs, back-end)"""
    from mc import examples_table as T
    out = []
    for name, e in T.ENTRIES.items():
        g = e["grid"] if tier != "quick" else e["grid"][:2]
        for i, kw in enumerate(g):
            if kw.get("n", 1) > 6:
                continue
            out.append((name, kw, "cvxpy"))
            if tier != "quick" or i == 0:
                out.append((name, kw, "mosek"))
    return out


def shards(tier):
    n = len(all_cases(tier))
    out = [dict(lo=lo, hi=min(n, lo + CHUNK)) for lo in range(0, n, CHUNK)]
    ne = len(example_cases(tier))
    out += [dict(kind="examples", lo=lo, hi=min(ne, lo + 8)) for lo in range(0, ne, 8)]
    return out


def post_depth(tier, idx):
    return 0


def run_shard(shard, tier):
    if shard.get("kind") == "examples":
        ev = nontriv = 0
        outcomes, viol, samples = {}, [], []
        for name, kw, be in example_cases(tier)[shard["lo"]:shard["hi"]]:
            r = solved.run_example_as_model(name, kw, be)
            ev += 1
            nontriv += r["outcome"] == "judged"
            oc = "example:%s:%s" % (be, r["outcome"])
            outcomes[oc] = outcomes.get(oc, 0) + 1
            for key, msg in r[WHICH]:
                viol.append(dict(key=key, msg=msg, case=dict(kind="example", example=name, kwargs=kw, backend=be)))
            if not samples:
                samples.append(dict(kind="example", example=name, kwargs=kw, backend=be, outcome=r["outcome"]))
        return dict(evaluations=ev, states=ev, transitions=ev, nontrivial=int(nontriv), outcomes=outcomes, violations=viol, samples=samples,
                    extra={"examples_judged": int(nontriv)})
    cases = all_cases(tier)[shard["lo"]:shard["hi"]]
    ev = nontriv = 0
    outcomes, viol, samples = {}, [], []
    for k, (spec, cfg) in enumerate(cases):
        r = solved.run(spec, cfg, post_depth=post_depth(tier, shard["lo"] + k))
        ev += 1
        oc = "%s:%s" % (cfg, r["outcome"])
        outcomes[oc] = outcomes.get(oc, 0) + 1
        if r["outcome"] == "judged":
            nontriv += 1
        for key, msg in r[WHICH]:
            viol.append(dict(key=key, msg=msg, case=dict(spec=spec, config=cfg, post_depth=post_depth(tier, shard["lo"] + k))))
        if not samples and r["outcome"] == "judged":
            samples.append(dict(spec=spec, config=cfg, value=r["value"], cert=r.get("cert"), held=r.get("held")))
    return dict(evaluations=ev, states=ev, transitions=ev, nontrivial=nontriv, outcomes=outcomes, violations=viol,
                samples=samples, extra={"solves_judged": nontriv})


def replay(case):
    if case.get("kind") == "example":
        r = solved.run_example_as_model(case["example"], case["kwargs"], case["backend"])
        return [dict(key=k, msg=m, case=case) for k, m in r[WHICH]]
    r = solved.run(case["spec"], case["config"], post_depth=case.get("post_depth", 0))
    return [dict(key=k, msg=m, case=case) for k, m in r[WHICH]]


def meta(tier):
    return dict(
        rule="every model spec of the finite grammar mc.models.enumerate_specs(tier) (24 classes x parameter tuples x "
             "declaration patterns x metrics x initial conditions x step counts; every extra (named/equality constraints, "
             "symmetric / non-symmetric / reordered / unsent LMIs, partitions, function-level constraints and LMIs, "
             "several metrics, second function, duplicate evaluation); composites with plain/zero/cancelling/weighted "
             "sums; alternative primitive steps; one model with > 128 rows) under the configuration plan "
             "(cvxpy+CLARABEL, MOSEK stand-in, library default solver, trace/logdet reduction, verbose 1/2); plus every "
             "shipped example with a closed form (74 entries, first grid points, both back-ends) solved as it is written and "
             "judged from inside PEP.solve; a state is a (model, configuration) pair, non-trivial = solved to optimality and judged.",
        bounds=dict(configs=[c for c, _ in config_plan(tier)], specs=len(models.enumerate_specs(tier)) + 1),
        exhaustive=True,
        assumptions=["CLARABEL / SCS return what they claim within tolerance (2e-6 / 5e-3 relative, frozen after "
                     "calibration: residuals <= 5e-8 / 2e-4 on the unchanged tree)",
                     "MOSEK-path runs use the stand-in mosek module (mc/mosek_standin): real MOSEK is modelled, not run",
                     "solves whose status is not `optimal` are counted, not judged"],
        trusted_base=["mc/refalg.py", "mc/certificate.py", "mc/mosek_standin/mosek/__init__.py", "cvxpy + CLARABEL/SCS"],
    )
