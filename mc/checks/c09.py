"""C09 - no real run of a modelled method on a real function beats the returned bound.

For every example family with an independent numerical implementation (mc.catalog.methods) and every grid point of its
documented parameter range (mc.examples_table), the value returned by the library is compared with the performance of the
method RUN NUMERICALLY on every eligible catalogue member (eligibility = definitional self-test), from every admissible
grid start, under EVERY resolution of the method's nondeterminism (subgradient selection at kinks, LMO ties, all index
sequences for stochastic methods): no run may beat the bound."""
import numpy as np

from mc import examples_table as T
from mc.catalog import methods as METH
from mc.catalog import members as MEM
from mc.checks.c10 import run_example

PROPERTY = "C09"
LEVEL = "exploration"


# parameter points outside the range in which the example documents a reference value: the returned number is still a bound
MORE = {
    "douglas_rachford_splitting_contraction": [dict(mu=mu, L=1.0, alpha=a, theta=t, n=n) for mu in (0.1, 0.5) for a in (0.3, 1.0) for t in (0.5, 1.5)
                                               for n in (1, 2)],
    "douglas_rachford_splitting": [dict(L=L, alpha=a, theta=t, n=n) for L in (1.0, 2.0) for a, t in ((1.0, 1.0), (1.5, 1.0), (1.0, 0.7), (0.5, 1.5))
                                   for n in (1, 2, 3)],
}


BRANCHING = {"subgradient_method", "gradient_descent_qg_convex", "gradient_descent_qg_convex_decreasing", "epsilon_subgradient_method",
             "frank_wolfe", "sgd", "randomized_coordinate_descent_smooth_convex", "subgradient_method_rsi_eb"}


def grid_for(name, tier):
    g = T.grid(name, tier) + [kw for kw in MORE.get(name, []) if kw not in T.grid(name, tier)]
    # iteration counts: the real runs of the families with a selection at every step enumerate the whole selection tree
    cap = 6 if name in BRANCHING else 10
    if tier == "quick":
        # up to 10 grid points spread evenly over the grid
        g = [kw for kw in g if kw.get("n", 1) <= cap]
        if len(g) > 10:
            idx = sorted({int(round(k * (len(g) - 1) / 9.0)) for k in range(10)})
            g = [g[i] for i in idx]
    else:
        g = [kw for kw in g if kw.get("n", 1) <= cap]
    return g


def judge(name, kw):
    try:
        tau, _, accurate = run_example(name, kw, "plain")
    except Exception as ex:
        if type(ex).__name__ == "SolverError":
            return [], "solver-error", 0, None
        return [("example-raised:%s:%s" % (name, type(ex).__name__), str(ex)[:150])], "raised", 0, None
    if tau is None:
        return [], "no-value", 0, None
    fam = METH.FAMILIES[name]
    worst, wdesc, nruns = -np.inf, None, 0
    MEM.OUT_OF_RANGE[0] = 0
    for perf, desc in fam(kw):
        if MEM.OUT_OF_RANGE[0]:
            # the run evaluated a member outside the box on which its membership was verified: it proves nothing
            MEM.OUT_OF_RANGE[0] = 0
            continue
        nruns += 1
        if perf > worst:
            worst, wdesc = perf, desc
    if nruns == 0:
        return [], "no-eligible-member", 0, None
    probs = []
    tol = (1e-4 if accurate else 1e-2) * max(1.0, abs(tau))
    if worst > tau + tol:
        probs.append(("real-run-beats-bound:%s" % name, "%s%s returns %.8g but the method run on %s achieves %.8g" % (T.ENTRIES[name]["func"], kw, tau, wdesc, worst)))
    ratio = worst / tau if tau > 0 else None
    return probs, "bounded", nruns, ratio


def cases(tier):
    return [(name, kw) for name in METH.FAMILIES for kw in grid_for(name, tier)]


def shards(tier):
    cs = cases(tier)
    return [dict(lo=i, hi=min(len(cs), i + 2)) for i in range(0, len(cs), 2)]


def run_shard(shard, tier):
    ev = runs = tight = 0
    outcomes, viol, samples = {}, [], []
    for name, kw in cases(tier)[shard["lo"]:shard["hi"]]:
        probs, label, nruns, ratio = judge(name, kw)
        ev += 1
        runs += nruns
        outcomes[label] = outcomes.get(label, 0) + 1
        if ratio is not None and ratio >= 0.999:
            tight += 1
            outcomes["bound-attained-by-a-real-run"] = outcomes.get("bound-attained-by-a-real-run", 0) + 1
        for k, m in probs:
            viol.append(dict(key=k, msg=m, case=dict(example=name, kwargs=kw)))
        if not samples:
            samples.append(dict(example=name, kwargs=kw, real_runs=nruns, best_ratio_to_bound=ratio))
    return dict(evaluations=ev, states=ev, transitions=max(runs, 1), nontrivial=runs, outcomes=outcomes, violations=viol, samples=samples,
                extra={"real_runs": runs, "settings_where_a_real_run_attains_the_bound": tight})


def replay(case):
    probs, _, _, _ = judge(case["example"], case["kwargs"])
    return [dict(key=k, msg=m, case=case) for k, m in probs]


def meta(tier):
    return dict(
        rule="%d example families (gradient, momentum / accelerated, line search, proximal, splitting, Frank-Wolfe, fixed-point, "
             "monotone-operator, stochastic) x grid points of their documented ranges: the returned value vs the method run "
             "numerically on every catalogue member passing the definitional self-test for the declared class and parameters, "
             "from every grid start satisfying the initial condition, under every subgradient selection / LMO tie / (exact "
             "expectation over) index choice. evaluations = settings; distinct_nontrivial = real runs executed; the evidence "
             "also counts the settings in which a real run attains the returned bound (tightness witness)." % len(METH.FAMILIES),
        bounds=dict(families=sorted(METH.FAMILIES), iteration_cap=6),
        exhaustive=True,
        assumptions=["genuinely partial: only catalogue members (R and R^2), grid starts, grid parameters; continuous-time, "
                     "potential-function, Bregman / NoLips and low-dimensional example variants are not covered by real runs",
                     "a real run must exceed the bound by more than 1e-4 relative to count (1e-2 when the solver flags its "
                     "own solve as inaccurate)"],
        trusted_base=["mc/catalog/methods.py", "mc/catalog/members.py (definitional self-tests)"],
    )
