"""C15 - block partitions behave as orthogonal coordinate-block projections.

(histories) all sequences of <= N get_block(point, k) calls over d in {1,2,3} and a point alphabet (two leaves, two
            combinations over the SAME leaves with different coefficients, a block of another point, a scaled leaf),
            followed by add_partition_constraints() (called once or twice, optionally after a hand-added constraint);
            oracle: blocks sum back to the point, asking again returns the identical objects, one block = identity, the
            generated relations equal - as a set of functionals - the reference {<x_i^(k), x_j^(l)> = 0, k != l} over all
            decomposed points, and every generated relation vanishes for the real coordinate projections of concrete
            integer vectors, for EVERY coordinate partition of R^n (n = d .. 3) into d blocks.
(solves)    block-smooth models solved through recording wrappers: what reaches the solver for the partition is exactly
            the reference set for all points decomposed so far (also those the class decomposes itself while generating
            its constraints), at the first solve and at a second solve after a new point was decomposed."""
import itertools
from fractions import Fraction

import numpy as np

from mc import refalg as R

PROPERTY = "C15"
LEVEL = "model_checking"

POINTS = ["p0", "p1", "c1", "c2", "blk", "s0"]


class World(object):
    def __init__(self, d):
        from PEPit import PEP, Point
        self.pep = PEP()
        self.Point = Point
        self.d = d
        self.part = self.pep.declare_block_partition(d=d)
        p0, p1 = Point(), Point()
        self.pts = {"p0": p0, "p1": p1, "c1": p0 - p1, "c2": p0 - 2 * p1, "s0": 2 * p0}
        self.log = []          # (point name, point object, k, returned block)

    def point(self, name):
        if name == "blk":
            # a block of another point, used as a point of its own
            if "blk" not in self.pts:
                self.pts["blk"] = self.part.get_block(self.pts["p0"], 0)
                self.log.append(("p0", self.pts["p0"], 0, self.pts["blk"]))
            return self.pts["blk"]
        return self.pts[name]


def fvec(expr, nP):
    return R.functional_vec(expr, nP, 0)


def norm_eq(v):
    """sign/scale-normalised functional of an equality."""
    v = np.asarray(v, float)
    nz = np.nonzero(np.abs(v) > 1e-12)[0]
    if not len(nz):
        return tuple()
    v = v / v[nz[0]]
    return tuple(np.round(v, 9).tolist())


def all_blocks(part, pt, d):
    return [part.get_block(pt, k) for k in range(d)]


def reference_relations(decomposed, nP):
    """{<x_i^(k), x_j^(l)> = 0 : all decomposed i, j (incl. i = j), k != l} as normalised functionals."""
    ref = set()
    for (bi, bj) in itertools.product(decomposed, repeat=2):
        for k in range(len(bi)):
            for l in range(len(bj)):
                if k != l:
                    f = norm_eq(fvec(bi[k] * bj[l], nP))
                    if f:
                        ref.add(f)
    return ref


def coordinate_partitions(n, d):
    """all surjective assignments of n coordinates to d blocks (blocks are labelled: block k of the partition)."""
    for assign in itertools.product(range(d), repeat=n):
        if len(set(assign)) == d:
            yield assign


def judge_history(d, hist, mode):
    """hist: list of (point name, k).  mode: 'once' | 'twice' | 'hand' (a hand-added constraint before generation)."""
    probs = []
    w = World(d)
    part = w.part
    for name, k in hist:
        if k >= d:
            return None, "disabled"
        pt = w.point(name)
        try:
            b = part.get_block(pt, k)
        except Exception as e:
            return [("history:get_block-raised:%s" % type(e).__name__, "get_block(%s, %d) raised %s" % (name, k, e))], "raised"
        w.log.append((name, pt, k, b))
    nP = w.Point.counter
    # (b) asking again returns the identical object; identity is per (point object, k)
    first = {}
    for name, pt, k, b in w.log:
        key = (id(pt), k)
        if key in first and first[key] is not b:
            probs.append(("history:not-same-block", "asking again for block %d of %s returned another object" % (k, name)))
        first.setdefault(key, b)
    decomposed_pts = []
    for name, pt, k, b in w.log:
        if not any(pt is q for q in decomposed_pts):
            decomposed_pts.append(pt)
    decomposed = []
    for pt in decomposed_pts:
        blocks = all_blocks(part, pt, d)
        for k, b in enumerate(blocks):
            if (id(pt), k) in first and first[(id(pt), k)] is not b:
                probs.append(("history:not-same-block", "a later query returned another object for a block"))
        # (a) blocks sum back to the point, (c) one block is the identity
        total = {}
        for b in blocks:
            total = R.add(total, R.of_point(b))
        if not R.close(total, R.of_point(pt)):
            probs.append(("history:blocks-do-not-sum", "the %d blocks of a point sum to %s, the point is %s"
                          % (d, R.to_jsonable(total), R.to_jsonable(R.of_point(pt)))))
        decomposed.append(blocks)
    # (d) generated relations == reference relations
    n_before = len(part.list_of_constraints)
    hand = None
    if mode == "hand":
        p = w.pts["p0"]
        hand = (p ** 2 == 1)
        part.add_constraint(hand)
    try:
        part.add_partition_constraints()
        if mode == "twice":
            part.add_partition_constraints()
    except Exception as e:
        probs.append(("history:generation-raised:%s" % type(e).__name__, str(e)[:100]))
        return probs, "raised"
    gen = [c for c in part.list_of_constraints if c is not hand]
    got = set()
    for c in gen:
        if c.equality_or_inequality != "equality":
            probs.append(("history:relation-sense", "a partition relation is an inequality"))
        f = norm_eq(fvec(c.expression, nP))
        if f:
            got.add(f)
    ref = reference_relations(decomposed, nP)
    if got - ref:
        probs.append(("history:extra-relation", "%d generated relation(s) are not orthogonality relations between different "
                      "blocks of decomposed points" % len(got - ref)))
    if ref - got:
        probs.append(("history:missing-relation", "%d of the %d orthogonality relations between blocks of the decomposed points "
                      "are not generated" % (len(ref - got), len(ref))))
    nz = sum(1 for c in gen if norm_eq(fvec(c.expression, nP)))
    if mode != "twice" and nz > 2 * max(1, len(ref)) + 4:
        probs.append(("history:relations-duplicated", "%d relations generated for %d distinct ones" % (nz, len(ref))))
    if mode == "twice" and len(gen) > 0 and nz > 2 * max(1, len(ref)) + 4:
        probs.append(("history:relations-accumulate", "generating twice leaves %d relations for %d distinct ones" % (nz, len(ref))))
    # (f) concrete side: every coordinate partition of R^n, integer vectors
    vals = {"p0": [3, -1, 2], "p1": [1, 4, -2]}
    leaves = w.Point.list_of_leaf_points
    for n in range(max(d, 2), 4):
        for assign in coordinate_partitions(n, d):
            X = np.zeros((n, nP))
            X[:, w.pts["p0"].counter] = vals["p0"][:n]
            X[:, w.pts["p1"].counter] = vals["p1"][:n]
            # block leaves, in creation order, get the real projection of their owner point
            ok = True
            for pt, blocks in zip(decomposed_pts, decomposed):
                for k, b in enumerate(blocks[:-1]):
                    if not b.get_is_leaf():
                        ok = False
                        continue
                    owner = R.evaluate_point(pt, X)
                    X[:, b.counter] = owner * (np.array(assign) == k)
            G = X.T @ X
            for c in gen:
                v = R.evaluate(c.expression, G, np.zeros(0))
                if abs(v) > 1e-9:
                    probs.append(("history:real-projection-excluded", "a generated relation evaluates to %g on the real coordinate "
                                  "projections (n=%d, partition %s)" % (v, n, assign)))
                    break
            else:
                continue
            break
    seen, out = set(), []
    for k, m in probs:
        if k not in seen:
            seen.add(k); out.append((k, m))
    return out, "rel%d" % min(len(ref), 9)


# ---- solve-level ----------------------------------------------------------------------------------------------------

SOLVE_CASES = [
    dict(L=[1.0, 2.0], step="gd", second="new_point"),
    dict(L=[1.0, 2.0], step="block", second="new_point"),
    dict(L=[1.0, 2.0, 4.0], step="gd", second="none"),
    dict(L=[1.0, 2.0, 4.0], step="block", second="same"),
    dict(L=[1.0], step="gd", second="new_point"),
    dict(L=[1.0, 2.0], step="block", second="new_combo"),
    dict(L=[2.0, 1.0], step="gd", second="same", hand=True),
    # the partition is built with the documented public constructor instead of PEP.declare_block_partition
    dict(L=[1.0, 2.0], step="block", second="new_point", direct=True),
    dict(L=[1.0, 2.0, 4.0], step="gd", second="same", direct=True),
    # user-given names that collide (names are labels only)
    dict(L=[1.0, 2.0], step="block", second="new_point", names="same"),
    # two partitions in one model (same / different number of blocks); points decomposed in the one that is not the last declared
    dict(L=[1.0, 2.0], step="block", second="new_point", two=2),
    dict(L=[1.0, 2.0], step="gd", second="same", two=3),
    dict(L=[1.0, 2.0, 4.0], step="block", second="new_combo", two=3),
    # a one-block partition declared BEFORE a several-block one (and after it)
    dict(L=[1.0], step="gd", second="new_point", two=2),
    dict(L=[1.0, 2.0], step="gd", second="none", two=1),
    # a purely geometric model: partitions and points, no function at all
    dict(L=[1.0, 2.0], step="block", second="new_point", nofunc=True),
    dict(L=[1.0, 2.0, 4.0], step="block", second="none", nofunc=True),
    # the same combination built twice (two objects, one decomposition), both decomposed
    dict(L=[1.0, 2.0], step="block", second="new_combo", copies=True),
    dict(L=[1.0, 2.0, 4.0], step="gd", second="none", copies=True),
    # a partition created, and points decomposed in it, BETWEEN two solves
    dict(L=[1.0, 2.0], step="block", second="new_partition"),
    dict(L=[1.0], step="gd", second="new_partition"),
    # loud solves (the library's default verbosity, and the highest)
    dict(L=[1.0, 2.0], step="block", second="new_point", verbose=1),
    dict(L=[1.0, 2.0, 4.0], step="gd", second="same", verbose=2),
    # a loop decomposing temporaries nobody keeps (their memory is recycled from one iteration to the next)
    dict(L=[1.0, 2.0], step="block", second="new_point", temps=True),
    dict(L=[1.0, 2.0, 4.0], step="gd", second="none", temps=True),
]


def judge_solve(case):
    from PEPit import PEP, Point, Expression
    from PEPit.functions import BlockSmoothConvexFunction
    from mc import solving, recording as REC
    probs = []
    p = PEP()
    d = len(case["L"])
    if case.get("direct"):
        from PEPit.block_partition import BlockPartition
        part = BlockPartition(d)
    else:
        part = p.declare_block_partition(d=d)
    import gc
    parts = [part]
    if case.get("two"):
        parts.append(p.declare_block_partition(d=case["two"]))
    # per partition: the block lists of every decomposed point.  The log keeps the BLOCKS, never the decomposed point itself:
    # a temporary such as `x0 - xs` must stay decomposed although nobody else references it
    logs = [[] for _ in parts]
    origs = [q.get_block for q in parts]

    def make_logged(idx):
        def logged(point, k):
            b = origs[idx](point, k)
            blocks = [origs[idx](point, kk) for kk in range(parts[idx].get_nb_blocks())]
            tot = {}
            for b_ in blocks:
                tot = R.add(tot, R.of_point(b_))
            if not R.close(tot, R.of_point(point), 1e-12):
                probs.append(("solve:blocks-do-not-sum", "the blocks handed out for a point do not sum back to it"))
            if not any(all(x is y for x, y in zip(blocks, old)) for old in logs[idx]):
                logs[idx].append(blocks)
            return b
        return logged
    if len({id(q) for q in parts}) == len(parts):
        for idx, q in enumerate(parts):
            q.get_block = make_logged(idx)
    else:
        probs.append(("solve:partitions-identified", "two calls of declare_block_partition returned the same partition object"))
    if case.get("nofunc"):
        f = None
        xs, x0, g0 = Point(), Point(), Point()
        p.add_constraint(g0 ** 2 <= 1)
        p.add_constraint(xs ** 2 <= 1)
    else:
        f = p.declare_function(BlockSmoothConvexFunction, partition=part, L=case["L"])
        xs = f.stationary_point()
        x0 = p.set_initial_point()
        g0 = f.gradient(x0)
    if case["step"] == "gd":
        x1 = x0 - (1.0 / sum(case["L"])) * g0          # the user never decomposes anything
    else:
        x1 = x0 - (1.0 / case["L"][0]) * part.get_block(g0, 0)
    if case.get("temps"):
        for k_ in range(4):
            part.get_block(x0 - (k_ + 1) * g0, k_ % d)      # the argument dies at the end of each statement
            held_ = x0 - (k_ + 2.5) * g0                    # ANOTHER point, built right after (it may get the recycled memory)
            part.get_block(held_, (k_ + 1) % d)
            held2_ = (k_ + 3.5) * xs + x0
            part.get_block(held2_, 0)
            del held_, held2_
    if case.get("copies"):
        part.get_block(x0 - g0, 0)
        part.get_block(x0 - g0, d - 1)          # another object with the same decomposition
    if case.get("names") == "same":
        for pt_ in (xs, x0, x1):
            pt_.set_name("x")
    p.set_initial_condition((x0 - xs) ** 2 <= 1)
    if f is None:
        p.set_performance_metric(part.get_block(x1, 0) ** 2 + part.get_block(x0, d - 1) ** 2)
    else:
        p.set_performance_metric(f(x1) - f(xs))
    hand = None
    if case.get("hand"):
        hand = (x0 * xs == 0)
        part.add_constraint(hand)
    if len(parts) > 1 and not probs:
        parts[1].get_block(x0, 0)
        parts[1].get_block(g0, parts[1].get_nb_blocks() - 1)
    values = []
    for rnd in (1, 2):
        if rnd == 2:
            if case["second"] == "none":
                break
            if case["second"] == "new_point":
                part.get_block(x1, 0)
            elif case["second"] == "new_combo":
                part.get_block(x0 - xs, d - 1)
            elif case["second"] == "new_partition":
                newp = p.declare_block_partition(d=3)
                parts.append(newp); logs.append([]); origs.append(newp.get_block)
                newp.get_block = make_logged(len(parts) - 1)
                newp.get_block(x1, 0)
                newp.get_block(g0, 2)
        with REC.recording():
            r = solving.solve(p, verbose=case.get("verbose", 0))
        if r["exc"] is not None:
            probs.append(("solve:raised:%s" % type(r["exc"]).__name__, str(r["exc"])[:150]))
            break
        values.append(r["value"])
        nP = Point.counter
        nF = Expression.counter
        gc.collect()
        ref = set()
        for decomposed in logs:
            for (bi, bj) in itertools.product(decomposed, repeat=2):
                for k in range(len(bi)):
                    for l in range(len(bj)):
                        if k != l:
                            fv = norm_eq(R.functional_vec(bi[k] * bj[l], nP, nF))
                            if fv:
                                ref.add(fv)
        calls = getattr(p.wrapper, "rec_calls", [])
        known = set()
        for cl in calls:
            if cl[0] != "scalar":
                continue
            known.add(id(cl[1]))
        # what was sent for the partition = sent scalar constraints that are neither problem / function / class constraints
        other = {id(c) for c in p.list_of_constraints} | ({id(c) for c in f.list_of_constraints} | {id(c) for c in f.list_of_class_constraints} if f is not None else set())
        sent = [cl[1] for cl in calls if cl[0] == "scalar" and id(cl[1]) not in other and cl[1] is not hand]
        sent = sent[len(p.list_of_performance_metrics):]     # the metric constraints come first and are created inside solve
        got = set()
        for c in sent:
            fv = norm_eq(R.functional_vec(c.expression, nP, nF))
            if fv:
                got.add(fv)
        if ref - got:
            probs.append(("solve:missing-relation:round%d" % rnd, "%d of %d orthogonality relations did not reach the solver at solve %d"
                          % (len(ref - got), len(ref), rnd)))
        if got - ref:
            probs.append(("solve:extra-relation:round%d" % rnd, "%d relation(s) sent for the partition are not orthogonality relations" % len(got - ref)))
        nz = sum(1 for c in sent if norm_eq(R.functional_vec(c.expression, nP, nF)))
        if nz > 2 * max(1, len(ref)) + 4:
            probs.append(("solve:relations-accumulate:round%d" % rnd, "%d relations sent for %d distinct ones" % (nz, len(ref))))
        if hand is not None and not any(cl[1] is hand for cl in calls):
            probs.append(("solve:hand-added-lost:round%d" % rnd, "a constraint added to the partition by hand was not sent"))
    return probs, "solved%d" % len(values)


# ---- interface ------------------------------------------------------------------------------------------------------

def _depth(tier):
    return 4 if tier == "quick" else 5


def alphabet(d):
    return [(n, k) for n in POINTS for k in range(d)]


def shards(tier):
    out = [dict(kind="solves")]
    for d in (1, 2, 3):
        for first in alphabet(d):
            out.append(dict(kind="hist", d=d, first=list(first), depth=_depth(tier) if d < 3 else _depth(tier) - 1))
    return out


def run_shard(shard, tier):
    ev = tr = nontriv = 0
    outcomes, viol, samples = {}, [], []
    if shard["kind"] == "solves":
        for case in SOLVE_CASES:
            probs, label = judge_solve(case)
            ev += 1; tr += 2; nontriv += 1
            outcomes[label] = outcomes.get(label, 0) + 1
            for k, m in probs:
                viol.append(dict(key=k, msg=m, case=dict(kind="solve", case=case)))
        samples.append(dict(kind="solve", case=SOLVE_CASES[0]))
    else:
        d = shard["d"]
        alpha = alphabet(d)
        first = tuple(shard["first"])
        for depth in range(1, shard["depth"] + 1):
            for rest in itertools.product(alpha, repeat=depth - 1):
                hist = (first,) + rest
                for mode in (("once", "twice", "hand") if depth <= 2 else ("once",)):
                    probs, label = judge_history(d, hist, mode)
                    if probs is None:
                        continue
                    ev += 1; tr += len(hist) + 1
                    nontriv += 1 if d > 1 else 0
                    outcomes["d%d:%s" % (d, label)] = outcomes.get("d%d:%s" % (d, label), 0) + 1
                    for k, m in probs:
                        if len(viol) < 60:
                            viol.append(dict(key=k, msg=m, case=dict(kind="hist", d=d, history=[list(h) for h in hist], mode=mode)))
        samples.append(dict(kind="hist", d=d, history=[list(first)] * 2, mode="once"))
    return dict(evaluations=ev, states=ev, transitions=tr, nontrivial=nontriv, outcomes=outcomes, violations=viol,
                samples=samples, extra={})


def replay(case):
    if case["kind"] == "solve":
        probs, _ = judge_solve(case["case"])
    else:
        probs, _ = judge_history(case["d"], [tuple(h) for h in case["history"]], case["mode"])
    return [dict(key=k, msg=m, case=case) for k, m in (probs or [])]


def meta(tier):
    return dict(
        rule="all histories of <= %d get_block(point, k) calls (<= %d for d = 3) over d in {1,2,3} and the points {leaf, leaf, "
             "p0-p1, p0-2*p1 (same leaves, other coefficients), a block used as a point, 2*p0}, then the relations are "
             "generated once / twice / after a hand-added constraint; sum, identity-of-objects, one-block identity, exact "
             "set of relations, and evaluation of every generated relation on the real coordinate projections of integer "
             "vectors for every coordinate partition of R^n, n <= 3; plus %d block-smooth solve scenarios (user never "
             "decomposes, decomposition of a new point between two solves, hand-added constraint, partition built with the public constructor, colliding point names, two partitions in one model, decomposed temporaries nobody references) observed through "
             "recording wrappers. non-trivial = d > 1." % (_depth(tier), _depth(tier) - 1, len(SOLVE_CASES)),
        bounds=dict(depth=_depth(tier), d=[1, 2, 3], n_max=3),
        exhaustive=True,
        assumptions=["two different Point objects with the same decomposition are not part of the alphabet (the property speaks "
                     "of asking again for the same point)"],
    )
