"""C02 - the primal output is a feasible, self-consistent worst-case instance.

Same solves as C01; after each finite solve the instance checker (mc.certificate.instance) compares eval() of every
leaf, every sent constraint / LMI, every object held by the user - including objects created before the solve and never
sent and, on a sub-family, every object built by <= 2 DSL operations AFTER the solve - with refalg's evaluation on the
returned Gram matrix / function values."""
from mc.checks import c01 as _base
from mc.checks.c01 import config_plan, all_cases, shards, meta as _meta  # noqa: F401
from mc import solved

PROPERTY = "C02"
LEVEL = "model_checking"
WHICH = "c02"


def _plan(tier):
    if tier == "quick":
        return [("cvx-clarabel-primal", lambda i, s: True),
                ("msk-primal", lambda i, s: i % 2 == 1 or "extras" in s),
                ("cvx-default-dual", lambda i, s: i % 7 == 3),
                ("cvx-clarabel-trace", lambda i, s: i % 9 == 4),
                ("msk-trace", lambda i, s: i % 31 == 7)]
    return [("cvx-clarabel-primal", lambda i, s: True), ("msk-primal", lambda i, s: True),
            ("cvx-default-dual", lambda i, s: i % 3 == 1), ("cvx-clarabel-trace", lambda i, s: i % 3 == 2),
            ("msk-trace", lambda i, s: i % 5 == 1), ("cvx-clarabel-logdet1", lambda i, s: i % 11 == 3)]


def all_cases(tier):  # noqa: F811
    from mc import models
    specs = models.enumerate_specs(tier) + [models.big_spec(12)]
    return [(s, cfg) for cfg, pred in _plan(tier) for i, s in enumerate(specs) if pred(i, s)]


def shards(tier):  # noqa: F811
    n = len(all_cases(tier))
    out = [dict(lo=lo, hi=min(n, lo + _base.CHUNK)) for lo in range(0, n, _base.CHUNK)]
    ne = len(_base.example_cases(tier))
    out += [dict(kind="examples", lo=lo, hi=min(ne, lo + 8)) for lo in range(0, ne, 8)]
    return out


def post_depth(tier, idx):
    # objects built after the solve: depth 1 on every 3rd case, depth 2 on every 10th (quick); all / every 3rd (thorough)
    if tier == "quick":
        return 2 if idx % 10 == 0 else (1 if idx % 3 == 0 else 0)
    return 2 if idx % 3 == 0 else 1


def run_shard(shard, tier):
    saved = (_base.WHICH, _base.all_cases, _base.post_depth)
    _base.WHICH, _base.all_cases, _base.post_depth = WHICH, all_cases, post_depth
    try:
        return _base.run_shard(shard, tier)
    finally:
        _base.WHICH, _base.all_cases, _base.post_depth = saved


def replay(case):
    if case.get("kind") == "example":
        r = solved.run_example_as_model(case["example"], case["kwargs"], case["backend"])
        return [dict(key=k, msg=m, case=case) for k, m in r[WHICH]]
    r = solved.run(case["spec"], case["config"], post_depth=case.get("post_depth", 0))
    return [dict(key=k, msg=m, case=case) for k, m in r[WHICH]]


def meta(tier):
    m = _meta(tier)
    m["rule"] = ("same model grammar as C01 under the plan %s; after each finite solve: Gram reproduction by the leaf "
                 "points, every sent constraint / LMI evaluated and satisfied, objective = smallest metric, primal <= "
                 "dual, and eval() of every held object (incl. objects created before the solve and never sent, and all "
                 "objects built by <= 2 DSL operations after the solve on a sub-family) equals the reference evaluation "
                 "of its decomposition." % [c for c, _ in _plan(tier)])
    m["bounds"]["configs"] = [c for c, _ in _plan(tier)]
    return m
