"""C11 - both back-ends pose the same SDP and report duals in one convention.

Every grammar model x {no reduction, trace, logdet1} is formulated through both wrappers (recording subclasses).
(structural, solver-free) the cvxpy Problem read back by basis evaluation and the MOSEK task recorded by the stand-in must
denote the same rows (sense, affine data, LMI coupling) in the same order and the same objective;
(solved) same optimal value, and the independent certificate / instance checkers hold on BOTH paths for the same
constraint list."""
import numpy as np

from mc import models, solving, recording as REC, certificate as CERT
from mc import refalg as R

PROPERTY = "C11"
LEVEL = "model_checking"
CHUNK = 8
NO_OPT = ("unbounded", "infeasible", "unbounded_inaccurate", "infeasible_inaccurate")


def vclose(a, b, tol=1e-9):
    a, b = np.asarray(a, float), np.asarray(b, float)
    return a.shape == b.shape and np.abs(a - b).max(initial=0.0) <= tol * max(1.0, np.abs(b).max(initial=0.0))


def compare_posed(i1, i2, dr):
    probs = []
    nP, nF, nP2, nF2 = i1["nP"], i1["nF"], i2["nP"], i2["nF"]
    P1, P2 = i1["posed"], i2["posed"]
    if P1 is not None and P2 is not None:
        for m in P1["problems"] + P2["problems"]:
            probs.append(("posed:malformed", m))
        if (nP, nF) != (nP2, nF2):
            probs.append(("posed:dimensions", "cvxpy path has %s leaves, MOSEK path %s" % ((nP, nF), (nP2, nF2))))
        elif len(P1["rows"]) != len(P2["rows"]) or P1["lmis"] != P2["lmis"]:
            probs.append(("posed:row-count", "cvxpy poses %d rows / LMIs %s, MOSEK %d rows / LMIs %s"
                          % (len(P1["rows"]), P1["lmis"], len(P2["rows"]), P2["lmis"])))
        else:
            tolc = 1e-9 if not dr else 1e-5
            for k, (a, b) in enumerate(zip(P1["rows"], P2["rows"])):
                if a["sense"] != b["sense"] or a["lmi"] != b["lmi"]:
                    probs.append(("posed:row-kind", "row %d: cvxpy %s %s, MOSEK %s %s" % (k, a["sense"], a["lmi"], b["sense"], b["lmi"])))
                    break
                if not vclose(a["vec"], b["vec"], tolc):
                    probs.append(("posed:row-data", "row %d denotes different affine functions on the two back-ends" % k))
                    break
            if P1["objsense"] != P2["objsense"] or not vclose(P1["objective"], P2["objective"], 1e-9 if not dr else 1e-4):
                probs.append(("posed:objective", "the two back-ends optimise different objectives (%s / %s)" % (P1["objsense"], P2["objsense"])))
    return probs


def judge(spec, dr):
    from PEPit.point import Point
    from PEPit.expression import Expression
    probs = []
    res = {}
    for be in ("cvxpy", "mosek"):
        # everything about one path is read before the other model is built (class-level registries are per PEP())
        ctx = models.build(spec)
        with REC.recording():
            r = solving.solve(ctx.pep, backend=be, dr=dr)
        info = dict(r=r, nP=Point.counter, nF=Expression.counter, probs=[], posed=None, clist=None)
        res[be] = info
        if r["exc"] is not None:
            continue
        pep = ctx.pep
        w = pep.wrapper
        # what was posed is read whatever the solver answered: two different answers to two identical problems are the
        # solver's business, two different problems are the library's
        try:
            info["posed"] = REC.posed_cvxpy(w) if be == "cvxpy" else REC.posed_mosek(w.task, info["nP"], info["nF"])
        except Exception as e:
            info["probs"].append(("posed:raised:%s:%s" % (be, type(e).__name__), str(e)[:150]))
        if r["value"] is None or r["status"] != "optimal" or r.get("first_status") not in (None, "optimal"):
            continue
        tol = solving.tolerance(be, "CLARABEL")
        try:
            cert = CERT.certificate(pep)
            sc = cert["scale"]
            if cert["resid"] > tol * sc and not (cert["asym_pairs"] > 0 and cert["resid_after_asym"] <= tol * sc):
                info["probs"].append(("certificate:identity:%s" % be, "identity residual %.2e (scale %.2e)" % (cert["resid"], sc)))
            if cert["lam_min"] < -tol * max(1, sc):
                info["probs"].append(("certificate:sign:%s" % be, "inequality multiplier %.2e" % cert["lam_min"]))
            if cert["psd_min"] < -tol * max(1, sc):
                info["probs"].append(("certificate:psd:%s" % be, "residual / LMI multiplier eigenvalue %.2e" % cert["psd_min"]))
            if not (cert["resid"] > tol * sc) and abs(cert["const"] - r["value"]) > 1e-9 * max(1, abs(r["value"])):
                info["probs"].append(("certificate:value:%s" % be, "returned %.10g, identity constant %.10g" % (r["value"], cert["const"])))
        except Exception as e:
            info["probs"].append(("certificate:raised:%s:%s" % (be, type(e).__name__), str(e)[:150]))
        try:
            for k, m in CERT.instance(pep, tol=tol if not dr else 10 * tol):
                info["probs"].append((k + ":" + be, m))
        except Exception as e:
            info["probs"].append(("instance:raised:%s:%s" % (be, type(e).__name__), str(e)[:150]))
        info["clist"] = [(c.equality_or_inequality, R.functional_vec(c.expression, info["nP"], info["nF"]))
                         for c in pep._list_of_constraints_sent_to_wrapper]
    i1, i2 = res["cvxpy"], res["mosek"]
    r1, r2 = i1["r"], i2["r"]
    nP, nF, nP2, nF2 = i1["nP"], i1["nF"], i2["nP"], i2["nF"]
    e1, e2 = r1["exc"], r2["exc"]
    if e1 is not None and type(e1).__name__ == "SolverError":
        return [], "solver-error"
    if e2 is not None and type(e2).__name__ == "SolverError":
        return [], "solver-error"
    if (e1 is None) != (e2 is None):
        which = "mosek" if e2 is not None else "cvxpy"
        e = e2 if e2 is not None else e1
        return [("raises-on-one-backend:%s:%s" % (which, type(e).__name__),
                 "the %s path raised %s: %s while the other path did not" % (which, type(e).__name__, str(e)[:150]))], "raised"
    if e1 is not None:
        return [], "both-raised"
    v1, v2 = r1["value"], r2["value"]
    s1, s2 = r1["status"], r2["status"]
    if s1 in NO_OPT or s2 in NO_OPT:
        if s1 in NO_OPT and s2 in NO_OPT:
            if (v1 is None) != (v2 is None):
                return [("no-optimum-answer-differs:%s" % ("unbounded" if "unbounded" in s1 else "infeasible"),
                         "cvxpy path returned %r, MOSEK path returned %r for a model without finite optimum" % (v1, v2))], "no-optimum"
            return [], "no-optimum"
        # (with a heuristic the path that found an optimum went on and posed the heuristic problem, the other did not: the
        #  final problems are comparable only without heuristic)
        pp = compare_posed(i1, i2, dr) if not dr else []
        if pp:
            return [(k + ":statuses-differ", m + " (cvxpy path: %s, MOSEK path: %s)" % (s1, s2)) for k, m in pp[:1]], "status-differs-posed-differs"
        return [], "status-differs:%s/%s" % (s1, s2)
    if s1 != "optimal" or s2 != "optimal" or v1 is None or v2 is None:
        return [], "not-judged:%s/%s" % (s1, s2)
    probs += i1["probs"] + i2["probs"]
    probs += compare_posed(i1, i2, dr)
    if abs(v1 - v2) > 2e-5 * max(1.0, abs(v1)):
        probs.append(("value-differs", "cvxpy path %.8g, MOSEK path %.8g" % (v1, v2)))
    l1, l2 = i1["clist"], i2["clist"]
    if l1 is not None and l2 is not None and (len(l1) != len(l2) or any(a[0] != b[0] or not vclose(a[1], b[1]) for a, b in zip(l1, l2))):
        probs.append(("constraint-list-differs", "the two paths attach multipliers to different constraint lists"))
    seen, out = set(), []
    for k, m in probs:
        if k not in seen:
            seen.add(k); out.append((k, m))
    return out, "compared"


def cases(tier):
    specs = models.enumerate_specs(tier) + [models.big_spec(12)]
    out = []
    for i, s in enumerate(specs):
        if tier == "quick":
            if i % 3 == 0 or "extras" in s or "comp" in s or s.get("pattern") == "none":
                out.append((s, None))
            if i % 12 == 1:
                out.append((s, "trace"))
            if i % 40 == 2:
                out.append((s, "logdet1"))
        else:
            out.append((s, None))
            if i % 3 == 0:
                out.append((s, "trace"))
            if i % 7 == 0:
                out.append((s, "logdet1"))
    fs = models.failing_specs(tier)
    out += [(s, None) for s in (fs[:8] if tier == "quick" else fs)]
    if tier == "quick":
        out += [(models.big_spec(12), None), (models.big_spec(12), "trace")]
    return out


def shards(tier):
    n = len(cases(tier))
    return [dict(lo=lo, hi=min(n, lo + CHUNK)) for lo in range(0, n, CHUNK)]


def run_shard(shard, tier):
    cs = cases(tier)[shard["lo"]:shard["hi"]]
    ev = nontriv = 0
    outcomes, viol, samples = {}, [], []
    for spec, dr in cs:
        probs, label = judge(spec, dr)
        ev += 1
        nontriv += label == "compared"
        oc = "%s:%s" % (dr or "none", label)
        outcomes[oc] = outcomes.get(oc, 0) + 1
        for k, m in probs:
            viol.append(dict(key=k, msg=m, case=dict(spec=spec, dr=dr)))
        if not samples and label == "compared":
            samples.append(dict(spec=spec, dr=dr, outcome=label))
    return dict(evaluations=ev, states=ev, transitions=2 * ev, nontrivial=int(nontriv), outcomes=outcomes, violations=viol,
                samples=samples, extra={})


def replay(case):
    probs, _ = judge(case["spec"], case["dr"])
    return [dict(key=k, msg=m, case=case) for k, m in probs]


def meta(tier):
    return dict(
        rule="every grammar model (incl. > 128 scalar rows, LMIs created in another order than sent, an LMI created but "
             "never sent, classes creating leaves while generating constraints, failing models) x {no reduction, trace, "
             "logdet1} is formulated through both wrappers; row-by-row comparison of the posed problems (after a heuristic: "
             "of the final problem incl. the optimality row and the replaced objective), value comparison, and the "
             "independent certificate / instance checkers on both paths. transitions = solves (2 per case).",
        bounds=dict(cases=len(cases(tier))),
        exhaustive=True,
        assumptions=["the MOSEK side is the stand-in module: recorded task data interpreted with MOSEK's documented "
                     "conventions and solved through cvxpy/CLARABEL with a self-check of MOSEK's dual equations",
                     "multipliers are compared through certificate validity on the same constraint list, not entry-wise "
                     "(the dual is not unique in general)"],
        trusted_base=["mc/mosek_standin/mosek/__init__.py", "mc/recording.py", "mc/certificate.py"],
    )
