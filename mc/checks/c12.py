"""C12 - a model's result does not depend on what happened earlier in the process.

For every observed program B and every history h over an alphabet of 'previous programs' (solved, solved twice, solved
with a heuristic / on the MOSEK path, abandoned unsolved, failed, raised half-way, evaluated module-level null objects and
accumulated long sums on them with +=, a model fragment built with the public constructors before any PEP() exists, models whose solve raises
half-way through the translation, models solved loudly)
up to a length bound, `h ; B` is executed in ONE process (a fork of a pristine interpreter that has imported the library
and run nothing) and the canonical dump of B - the exact solver input (cvxpy: the stuffed problem data handed to
CLARABEL, byte for byte; MOSEK path: the stand-in's call log with exact floats), the names of the constraints sent and the
returned value - is compared with the dump of B run FIRST in a FRESH interpreter (separate process)."""
import hashlib
import itertools
import json
import os
import subprocess
import sys

PROPERTY = "C12"
LEVEL = "model_checking"
VERIF = os.path.dirname(os.path.dirname(os.path.dirname(os.path.abspath(__file__))))


# ---- programs -------------------------------------------------------------------------------------------------------

def _spec(name):
    S = {
        "gd": dict(cls="SmoothStronglyConvexFunction", par=0, pattern="sf", metric="dist", init="dist", n=2),
        "block": dict(cls="BlockSmoothConvexFunction", par=2, pattern="sf", metric="fval", init="dist", n=2),
        "quad": dict(cls="SmoothStronglyConvexQuadraticFunction", par=0, pattern="sf", metric="fval", init="dist", n=2),
        "linop": dict(cls="LinearOperator", par=0, pattern="sf", metric="grad", init="dist", n=1),
        "comp": dict(cls="SmoothStronglyConvexFunction", par=0, pattern="sl", comp="sum", step="prox", metric="dist", init="dist", n=1),
        "lmi": dict(cls="SmoothConvexFunction", par=0, pattern="sf", metric="fval", init="dist", n=1,
                    extras=["lmi_two", "partition2", "fn_lmi", "named_ineq"], named=True, fname="func"),
        "qg": dict(cls="ConvexQGFunction", par=0, pattern="none", metric="negdist", init="dist", n=1),
        "unbounded": dict(cls="SmoothConvexFunction", par=0, pattern="sf", metric="dist", init="none", n=1),
        "els": dict(cls="SmoothStronglyConvexFunction", par=0, pattern="sf", step="els", metric="fval", init="dist", n=2),
        "support": dict(cls="ConvexSupportFunction", par=1, pattern="sl", metric="dist", init="dist", n=1, extras=["partition2", "second_function"]),
    }
    return S[name]


def prev_program(name):
    """One 'previous program' of the history alphabet.  Must leave the process as any user program would."""
    from mc import models, solving
    if name in ("gd", "block", "quad", "linop", "comp", "lmi", "qg", "support"):
        c = models.build(_spec(name))
        solving.solve(c.pep)
    elif name == "abandon":
        c = models.build(_spec("lmi"))          # built (partition, functions, LMIs, named constraints), never solved
        c.funcs["f"].oracle(c.points["xn"])
    elif name == "unbounded":
        c = models.build(_spec("unbounded"))
        solving.solve(c.pep)
    elif name == "raises":
        try:
            c = models.build(_spec("block"))
            c.pep.solve(verbose=0, solver="CLARABEL", dimension_reduction_heuristic="nope")
        except Exception:
            pass
        try:
            from PEPit import PEP, Point
            p = PEP()
            part = p.declare_block_partition(d=3)
            part.get_block(Point(), 1)
            part.get_block(Point(), 7)         # raises half-way through building
        except Exception:
            pass
        try:
            # a solve that raises WHILE the class constraints are being generated (mu = L: division by L - mu)
            from PEPit import PEP
            from PEPit.functions import SmoothStronglyConvexFunction
            p0 = PEP()
            f0 = p0.declare_function(SmoothStronglyConvexFunction, mu=1., L=1.)
            xs0 = f0.stationary_point()
            x00 = p0.set_initial_point()
            f0.gradient(x00)
            p0.set_initial_condition((x00 - xs0) ** 2 <= 1)
            p0.set_performance_metric((x00 - xs0) ** 2)
            p0.solve(verbose=0, solver="CLARABEL")
        except Exception:
            pass
    elif name == "twice":
        c = models.build(_spec("quad"))
        solving.solve(c.pep)
        solving.solve(c.pep, mode="primal")
    elif name == "heur":
        c = models.build(_spec("gd"))
        solving.solve(c.pep, dr="trace")
    elif name == "mosek":
        c = models.build(_spec("lmi"))
        solving.solve(c.pep, backend="mosek")
    elif name == "opts":
        # solves that are given solver options which later programs do not repeat
        c = models.build(_spec("gd"))
        solving.solve(c.pep, solver="SCS", extra={"max_iters": 3, "eps": 1e-1})
        c = models.build(_spec("quad"))
        solving.solve(c.pep, solver=None)
    elif name == "nulls":
        from PEPit.point import null_point
        from PEPit.expression import null_expression
        c = models.build(_spec("block"))
        solving.solve(c.pep)
        for o in (null_point, null_expression, null_point + c.points["x0"], null_expression + c.exprs["dn"]):
            try:
                o.eval()
            except Exception:
                pass
        # long sums accumulated with += starting from the module-level null objects
        tot, acc = null_expression, null_point
        for k in range(2):
            tot += c.exprs["dn"]
            tot += 0.5 * c.exprs["d0"]
            acc += c.points["x0"]
        c.pep.add_constraint(tot + acc ** 2 <= 100)
    elif name == "badkey":
        # models of every small size whose solve raises half-way through the translation of a constraint (a valid inner
        # product followed by a key that is not made of leaf points)
        from PEPit import PEP, Point, Expression
        for n_ in range(2, 10):
            p = PEP()
            pts = [Point() for _ in range(n_)]
            bad = Expression(is_leaf=False, decomposition_dict={(pts[0], pts[1]): 1.0, (pts[0], pts[0] + pts[1]): 1.0})
            p.add_constraint(bad <= 1)
            p.add_constraint(pts[0] ** 2 <= 1)
            p.set_performance_metric(pts[0] ** 2)
            for be in ("cvxpy", "mosek"):
                try:
                    solving.solve(p, backend=be)
                except Exception:
                    pass
    elif name == "loud":
        # earlier programs solved at the default and at the highest verbosity
        c = models.build(_spec("gd"))
        solving.solve(c.pep, verbose=1)
        c = models.build(_spec("block"))
        solving.solve(c.pep, verbose=2)
        c = models.build(_spec("quad"))
        solving.solve(c.pep, verbose=1, dr="trace")
    elif name == "fragment":
        # an abandoned model fragment built with the public constructors BEFORE any PEP() exists in the process
        from PEPit import Point, Expression
        from PEPit.functions import ConvexFunction, SmoothConvexFunction
        from PEPit.block_partition import BlockPartition
        x, e = Point(), Expression()
        f, g = ConvexFunction(), SmoothConvexFunction(L=1.)
        f.oracle(x)
        (f + g).oracle(Point())
        part = BlockPartition(2)
        part.get_block(x, 0)
    else:
        raise KeyError(name)


HISTORY_ALPHABET = ["gd", "block", "quad", "linop", "comp", "lmi", "qg", "abandon", "unbounded", "raises", "twice", "heur",
                    "mosek", "nulls", "opts", "fragment", "badkey", "loud"]
OBSERVED = ["gd", "block", "quad", "lmi", "comp", "els", "nullsum", "lmi@mosek", "block@mosek", "qg", "support", "gd+logdet2", "lmi+trace",
            "block+logdet1@mosek"]


def observed_program(name, verbose):
    """Runs B and returns its canonical dump."""
    import numpy as np
    from mc import models, solving, recording as REC
    backend = "mosek" if name.endswith("@mosek") else "cvxpy"
    base = name.split("@")[0]
    dr = None
    if "+" in base:
        base, dr = base.split("+")
    if base == "nullsum":
        from PEPit.point import null_point
        from PEPit.expression import null_expression
        c = models.build(_spec("block"))
        acc, tot = null_point, null_expression
        for k in range(3):
            acc += c.partition.get_block(c.points["xn"], k)
        tot += (acc - c.points["xn"]) ** 2
        tot += null_expression
        c.pep.add_constraint(tot <= 0.5)
        null_values = []
    else:
        c = models.build(_spec(base))
    with REC.recording():
        r = solving.solve(c.pep, backend=backend, verbose=verbose, dr=dr)
    dump = dict(program=name, value=None if r["value"] is None else float(r["value"]).hex(),
                exc=None if r["exc"] is None else type(r["exc"]).__name__)
    w = c.pep.wrapper
    calls = getattr(w, "rec_calls", [])
    dump["names"] = [str(cl[1].get_name()) for cl in calls]
    # the multipliers attached to the constraints sent (bit-exact: same input, deterministic solver)
    hd = hashlib.sha256()
    nd = 0
    for cl in calls:
        try:
            hd.update(np.ascontiguousarray(np.asarray(cl[1].eval_dual(), dtype=float)).tobytes())
            nd += 1
        except Exception as e:
            hd.update(type(e).__name__.encode())
    dump["duals_sha256"] = hd.hexdigest()
    dump["duals_read"] = nd
    # the primal instance the user reads afterwards (bit-exact as well)
    from PEPit.point import Point as _P
    from PEPit.expression import Expression as _E
    hi = hashlib.sha256()
    ni = 0
    for o in list(_P.list_of_leaf_points) + list(_E.list_of_leaf_expressions):
        try:
            hi.update(np.ascontiguousarray(np.asarray(o.eval(), dtype=float)).tobytes())
            ni += 1
        except Exception as e:
            hi.update(type(e).__name__.encode())
    dump["instance_sha256"] = hi.hexdigest()
    dump["instance_read"] = ni
    dump["n_sent"] = len(calls)
    if backend == "cvxpy" and getattr(w, "prob", None) is not None:
        import cvxpy as cp
        data, _, _ = w.prob.get_problem_data(cp.CLARABEL)
        h = hashlib.sha256()
        shapes = {}
        for key in sorted(data):
            v = data[key]
            if hasattr(v, "tocsc"):
                v = v.tocsc(); v.sort_indices()
                for part in (v.data, v.indices, v.indptr):
                    h.update(np.ascontiguousarray(part).tobytes())
                shapes[key] = [int(v.shape[0]), int(v.shape[1]), int(v.nnz)]
            elif isinstance(v, np.ndarray):
                h.update(np.ascontiguousarray(v).tobytes())
                shapes[key] = list(v.shape)
            elif key == "dims":
                h.update(repr(v).encode())
                shapes[key] = repr(v)
        dump["solver_input_sha256"] = h.hexdigest()
        dump["solver_input_shapes"] = shapes
    if backend == "mosek":
        h = hashlib.sha256()
        n = 0
        for rec in r.get("log", []):
            h.update(_exact_repr(rec).encode())
            n += 1
        dump["mosek_calls"] = n
        dump["mosek_log_sha256"] = h.hexdigest()
    if base == "nullsum":
        from PEPit.point import null_point
        try:
            dump["null_point_len"] = int(len(null_point.eval()))
        except Exception as e:
            dump["null_point_len"] = type(e).__name__
    return dump


def _exact_repr(x):
    if isinstance(x, float):
        return x.hex()
    if isinstance(x, (tuple, list)):
        return "(" + ",".join(_exact_repr(y) for y in x) + ")"
    return repr(x)


# ---- execution in a controlled process history ------------------------------------------------------------------------

def run_in_fork(history, prog, verbose, pad=0):
    """fork a child of this (pristine) process; the child runs history ; B and returns B's dump.
    pad: number of dummy objects allocated (and kept alive) first - the allocator state is part of the process history."""
    rfd, wfd = os.pipe()
    pid = os.fork()
    if pid == 0:
        try:
            os.close(rfd)
            out = None
            try:
                import io, contextlib
                with contextlib.redirect_stdout(io.StringIO()):
                    _keep = [[object() for _ in range(7)] for _ in range(pad * 53)]
                    for h in history:
                        prev_program(h)
                    out = observed_program(prog, verbose)
            except BaseException as e:  # noqa
                out = dict(program=prog, harness_exception="%s: %s" % (type(e).__name__, str(e)[:300]))
            os.write(wfd, json.dumps(out).encode())
        finally:
            os._exit(0)
    os.close(wfd)
    chunks = []
    while True:
        b = os.read(rfd, 1 << 16)
        if not b:
            break
        chunks.append(b)
    os.close(rfd)
    os.waitpid(pid, 0)
    return json.loads(b"".join(chunks).decode())


def reference_dump(prog):
    """B run first in a fresh interpreter (separate process, verbosity 0)."""
    env = dict(os.environ)
    p = subprocess.run([sys.executable, "-W", "ignore", "-c",
                        "import json; from mc.checks import c12; print('@@' + json.dumps(c12.observed_program(%r, 0)))" % prog],
                       cwd=VERIF, env=env, capture_output=True, text=True)
    line = [l for l in p.stdout.splitlines() if l.startswith("@@")]
    if not line:
        raise RuntimeError("reference run of %s failed: %s" % (prog, p.stderr[-800:]))
    return json.loads(line[0][2:])


def diff(ref, got):
    return [k for k in sorted(set(ref) | set(got)) if ref.get(k) != got.get(k)]


def judge(history, prog, verbose, ref=None, pads=(0,)):
    ref = ref or reference_dump(prog)
    out = None
    for pad in pads:
        out = _judge_once(history, prog, verbose, ref, pad)
        if out[0]:
            return out
    return out


def _judge_once(history, prog, verbose, ref, pad):
    got = run_in_fork(history, prog, verbose, pad)
    if "harness_exception" in got:
        return [("history-dependent:raises:%s" % prog, "B raised %s after history %s" % (got["harness_exception"], list(history)))], got
    d = diff(ref, got)
    if d:
        what = "multipliers" if d == ["duals_sha256"] else "instance" if set(d) <= {"instance_sha256", "instance_read"} else "solver-input" if any(k in d for k in ("solver_input_sha256", "mosek_log_sha256", "solver_input_shapes", "mosek_calls", "n_sent")) \
            else "names" if "names" in d else "result"
        return [("history-dependent:%s:%s" % (what, prog),
                 "after history %s (verbose=%d) program %s differs from its run in a fresh interpreter in %s: %s vs %s"
                 % (list(history), verbose, prog, d, {k: got.get(k) for k in d if k != "names"}, {k: ref.get(k) for k in d if k != "names"}))], got
    return [], got


# ---- interface ------------------------------------------------------------------------------------------------------

def _depth(tier):
    return 2 if tier == "quick" else 3


def shards(tier):
    out = []
    for prog in OBSERVED:
        ref = reference_dump(prog)
        for first in [None] + HISTORY_ALPHABET:
            out.append(dict(prog=prog, first=first, depth=_depth(tier), ref=ref))
    return out


def determinism_shard(tier, sh):
    return sh[1]


_WARM = []


def _warm_up():
    """Import everything (and run one pure-cvxpy solve) in the pristine parent so that forked children do not pay for
    it; nothing of PEPit is executed: no PEP(), no Point, no Function is created here."""
    if _WARM:
        return
    import numpy as np
    import cvxpy as cp
    import PEPit, PEPit.functions, PEPit.operators, PEPit.primitive_steps  # noqa: F401
    from mc import models, solving, recording  # noqa: F401
    import mc.mosek_standin  # noqa: F401
    X = cp.Variable((2, 2), symmetric=True)
    cp.Problem(cp.Maximize(X[0, 1]), [X >> 0, cp.trace(X) <= 1]).solve(solver="CLARABEL")
    _WARM.append(1)


def run_shard(shard, tier):
    _warm_up()
    prog, ref = shard["prog"], shard["ref"]
    ev = tr = nontriv = 0
    outcomes, viol, samples = {}, [], []
    if shard["first"] is None:
        hists = [()]
    else:
        hists = []
        for d in range(1, shard["depth"] + 1):
            for rest in itertools.product(HISTORY_ALPHABET, repeat=d - 1):
                hists.append((shard["first"],) + rest)
    for h in hists:
        # verbosity 0 for every history, 1 and 2 for the histories of length <= 1
        for v in ([0, 1, 2] if len(h) <= 1 else [0]):
            probs, got = judge(h, prog, v, ref)
            ev += 1
            tr += len(h) + 1
            nontriv += 1 if h else 0
            oc = "same" if not probs else "differs"
            outcomes[oc] = outcomes.get(oc, 0) + 1
            for k, m in probs:
                viol.append(dict(key=k, msg=m, case=dict(history=list(h), program=prog, verbose=v)))
    if hists:
        samples.append(dict(history=list(hists[-1]), program=prog, dump_keys=sorted(ref)))
    return dict(evaluations=ev, states=ev, transitions=tr, nontrivial=nontriv, outcomes=outcomes, violations=viol,
                samples=samples, extra={})


def replay(case):
    # a dependence on the allocator state (e.g. iteration over a set of objects) does not reproduce at one fixed state:
    # the replay enumerates 8 allocation offsets and reports the violation if any of them shows it
    probs, _ = judge(tuple(case["history"]), case["program"], case["verbose"], pads=tuple(range(8)))
    return [dict(key=k, msg=m, case=case) for k, m in probs]


def meta(tier):
    return dict(
        rule="for every observed program B in %s and every history over the %d-letter alphabet %s of length <= %d "
             "(verbosity 0; additionally 1 and 2 for histories of length <= 1): run `history ; B` in a forked pristine "
             "process and compare B's canonical dump (sha256 of the exact solver input, names and number of the objects "
             "sent, returned value as float.hex) with B run first in a fresh interpreter. transitions = programs executed."
             % (OBSERVED, len(HISTORY_ALPHABET), HISTORY_ALPHABET, _depth(tier)),
        bounds=dict(history_length=_depth(tier), alphabet=len(HISTORY_ALPHABET), observed=len(OBSERVED)),
        exhaustive=True,
        assumptions=["CLARABEL and cvxpy's canonicalisation are deterministic for identical input (checked: the same program "
                     "gives the same dump in the fork and in the fresh interpreter for the empty history)",
                     "MOSEK-path programs are observed through the stand-in's call log"],
        trusted_base=["mc/mosek_standin/mosek/__init__.py", "cvxpy get_problem_data"],
    )
