"""C03 - class constraints never exclude a real member of the class.

For every class, every catalogued real member with its parameters (mc.catalog.members; each membership claim is first
self-tested against the class DEFINITION), every declaration history up to a length bound driven through the public API
(evaluations at new / repeated / combined points, stationary points, fixed points, adjoint evaluations, displacement
vector), every assignment of grid points to the declared points and every listed (sub)gradient selection: the sampled
points, gradients and values are written into the leaves and EVERY generated scalar constraint and class LMI is
evaluated.  A constraint violated by a real member is a violation."""
import itertools

import numpy as np

from mc import models
from mc import refalg as R
from mc.catalog import members as MEM

PROPERTY = "C03"
LEVEL = "exploration"

# classes whose constructor documents `reuse_gradient` as honoured but defaults to True although they have multi-valued members:
# they are declared with reuse_gradient=False, the documented way to ask for an independent answer on every call
EXPLICIT_NO_REUSE = {"NegativelyComonotoneOperator"}

OPS = ["e", "r", "c", "m", "s", "x", "S"]


def ops_for(cls):
    ops = list(OPS)
    if cls == "LinearOperator":
        ops += ["t", "T"]
    if cls == "NonexpansiveOperator":
        ops += ["v"]
    return ops


class Decl(object):
    """One replayed declaration history with symbolic slots to be filled with concrete vectors."""

    def __init__(self, cls, par, hist, pre_par=None, same_names=False):
        """pre_par: the object is first declared with these parameters and its constraints generated once (as a first
        solve would); its parameters are then changed to `par` and the constraints generated again."""
        from PEPit import PEP, Point
        self.ok = True
        self.cls, self.par = cls, par
        p = self.pep = PEP()
        kw = dict(pre_par if pre_par is not None else par)
        self.part = None
        if cls == "BlockSmoothConvexFunction":
            self.part = p.declare_block_partition(d=len(par["L"]))
            kw["partition"] = self.part
        if cls in EXPLICIT_NO_REUSE:
            kw["reuse_gradient"] = False
        f = self.f = p.declare_function(models.get_class(cls), **kw)
        self.slots = []       # (leaf point, kind) kind in 'grid' | 'stat' | 'fixed' | 'vdisp' | 'ugrid'
        self.calls = []       # (point, returned gradient, returned value) of every plain oracle call, in call order
        self.declared_stat = []   # what every stationary_point() declaration returned
        pts = []
        for op in hist:
            if op == "e":
                x = Point(); self.slots.append((x, "grid")); self.calls.append((x,) + tuple(f.oracle(x))); pts.append(x)
            elif op == "r":
                if not pts:
                    self.ok = False; return
                self.calls.append((pts[0],) + tuple(f.oracle(pts[0])))
            elif op == "c":
                if not pts:
                    self.ok = False; return
                x = (pts[0] + pts[-1]) if len(pts) > 1 else 2 * pts[0]
                self.calls.append((x,) + tuple(f.oracle(x))); pts.append(x)
            elif op == "m":
                # two different points with the same leaf support and permuted coefficients, built in opposite orders
                a, b = Point(), Point()
                self.slots.append((a, "grid")); self.slots.append((b, "grid"))
                x = 0.25 * a + 0.75 * b
                y = 0.25 * b + 0.75 * a
                self.calls.append((x,) + tuple(f.oracle(x))); self.calls.append((y,) + tuple(f.oracle(y)))
                pts.append(x); pts.append(y)
            elif op == "s":
                x = f.stationary_point(); self.slots.append((x, "stat")); pts.append(x); self.declared_stat.append(x)
            elif op == "S":
                x = (2 * f).stationary_point(); self.slots.append((x, "stat")); pts.append(x); self.declared_stat.append(x)
            elif op == "x":
                x, _, _ = f.fixed_point(); self.slots.append((x, "fixed")); pts.append(x)
            elif op == "t":
                u = Point(); self.slots.append((u, "ugrid")); f.T.oracle(u)
            elif op == "T":
                if not f.list_of_points:
                    self.ok = False; return
                f.T.oracle(f.list_of_points[0][1])
            elif op == "v":
                if getattr(f, "v", None) is not None:
                    self.ok = False; return
                f.v = Point(); self.slots.append((f.v, "vdisp"))
        if same_names:
            # the user gave the first two evaluation points the same name (names are labels: they must not influence the model)
            for x_ in pts[:2]:
                x_.set_name("x")
        f.set_class_constraints()
        if pre_par is not None:
            for k_, v_ in par.items():
                setattr(f, k_, v_)
            f.set_class_constraints()
        # stationary points created by the class itself (QG / RSI-EB without declared one, quadratic class)
        known = {id(s[0]) for s in self.slots}
        for (x, g, fx) in f.list_of_points:
            if x.get_is_leaf() and id(x) not in known and g.decomposition_dict == dict():
                self.slots.append((x, "stat")); known.add(id(x))


def judge(cls, par, member, hist, stats, pre_par=None, same_names=False):
    from PEPit.point import Point
    from PEPit.expression import Expression
    d = Decl(cls, par, hist, pre_par, same_names)
    if not d.ok:
        return None
    f = d.f
    # two declarations "let x be a stationary point" are two points: a member with several stationary points has executions
    # in which they differ, which the declared objects must be able to represent
    for i_ in range(len(d.declared_stat)):
        for j_ in range(i_):
            if d.declared_stat[i_].decomposition_dict == d.declared_stat[j_].decomposition_dict \
                    and len({tuple(np.round(s_, 9).tolist()) for s_ in member.stationary}) >= 2:
                return [("member-excluded:stationary-points-identified:%s" % cls,
                         "two stationary_point() declarations returned one and the same point, real member %s (%s) has the "
                         "distinct stationary points %s; declaration %s"
                         % (member.name, par, [np.round(s_, 3).tolist() for s_ in member.stationary[:3]], "".join(hist)))]
    nP, nF = Point.counter, Expression.counter
    n = member.dim
    m_out = getattr(member, "outdim", n)
    tot = n + (m_out if m_out != n or cls == "LinearOperator" else 0)
    same_space = not (cls == "LinearOperator")
    dimtot = n if same_space else n + m_out
    cons = list(f.list_of_class_constraints)
    V = np.array([R.functional_vec(c.expression, nP, nF) for c in cons]) if cons else np.zeros((0, 1))
    senses = [c.equality_or_inequality for c in cons]
    lmis = []
    for M in f.list_of_class_psd:
        k = M.shape[0]
        lmis.append(np.array([[R.functional_vec(M[i, j], nP, nF) for j in range(k)] for i in range(k)]) if k else None)
    iu = np.triu_indices(nP)
    call_fvecs = [R.functional_vec(cf, nP, nF) for (_, _, cf) in d.calls]
    allP = set(range(nP))
    # choices for the slots
    choice_sets = []
    for leaf, kind in d.slots:
        if kind == "grid":
            choice_sets.append(member.grid())
        elif kind == "ugrid":
            choice_sets.append([p_ for p_ in (MEM.GRID1 if m_out == 1 else MEM.GRID2)])
        elif kind == "stat":
            choice_sets.append(member.stationary)
        elif kind == "fixed":
            choice_sets.append(member.fixed)
        elif kind == "vdisp":
            choice_sets.append([member.vdisp] if member.vdisp is not None else [])
    if any(len(c) == 0 for c in choice_sets):
        stats["no-such-point"] = stats.get("no-such-point", 0) + 1
        return []
    probs = []
    samples_A = list(f.list_of_points)
    samples_T = list(f.T.list_of_points) if cls == "LinearOperator" else []

    def embed(vec, space):
        out = np.zeros(dimtot)
        if same_space or space == "in":
            out[:len(vec)] = vec
        else:
            out[n:n + len(vec)] = vec
        return out

    def evalpt(pt, P, assigned):
        val = np.zeros(dimtot)
        for leaf, w in pt.decomposition_dict.items():
            if leaf.counter not in assigned:
                return None
            val = val + w * P[:, leaf.counter]
        return val

    for combo in itertools.product(*choice_sets):
        P0 = np.zeros((dimtot, nP))
        assigned = set()
        for (leaf, kind), val in zip(d.slots, combo):
            P0[:, leaf.counter] = embed(val, "out" if kind == "ugrid" else "in")
            assigned.add(leaf.counter)
        # gradient selections: one choice per sample whose gradient is a leaf
        pending = []      # (sample index, which list, x value)
        bad_decl = False
        xs_vals = {}
        order = [("A", k) for k in range(len(samples_A))] + [("T", k) for k in range(len(samples_T))]
        # two passes are enough: combination points depend on slot leaves only; 'T' evaluates at an output of A
        sel_sets = []
        # resolve lazily inside a recursive product
        def resolve(idx, P, assigned_now, F, fset):
            nonlocal bad_decl
            if idx == len(order):
                yield P, F
                return
            which, k = order[idx]
            x, g, fx = (samples_A if which == "A" else samples_T)[k]
            xv = evalpt(x, P, assigned_now)
            if xv is None:
                bad_decl = True
                return
            xin = xv[:n] if (same_space or which == "A") else xv[n:n + m_out]
            if which == "A" and not member.in_domain(xin):
                bad_decl = True
                return
            if which == "A":
                imgs = member.grads(xin)
                val = member.value(xin)
            else:
                imgs = [member.matrix.T @ xin]
                val = 0.0
            space = "in" if same_space else ("out" if which == "A" else "in")
            fset = set(fset)
            if fx.get_is_leaf():
                F = F.copy(); F[fx.counter] = val
            else:
                # a value recorded through a multiple of the function: fill the one leaf it is expressed with
                F = F.copy()
                rest, free = 0.0, []
                for key, w in fx.decomposition_dict.items():
                    if isinstance(key, Expression):
                        if key.counter in fset:
                            rest += w * F[key.counter]
                        else:
                            free.append((key, w))
                    elif key == 1:
                        rest += w
                if len(free) == 1 and free[0][1] != 0:
                    F[free[0][0].counter] = (val - rest) / free[0][1]
                    fset.add(free[0][0].counter)
            if fx.get_is_leaf():
                fset.add(fx.counter)
            if g.get_is_leaf() and g.counter not in assigned_now:
                for im in imgs:
                    P2 = P.copy(); P2[:, g.counter] = embed(im, space)
                    # block leaves of this gradient (block-smooth class)
                    a2 = set(assigned_now); a2.add(g.counter)
                    if d.part is not None and g in d.part.blocks_dict:
                        blocks = d.part.blocks_dict[g]
                        dd = len(blocks)
                        for bk, b in enumerate(blocks[:-1]):
                            mask = np.zeros(dimtot)
                            if dd == n:
                                mask[bk] = 1
                            else:
                                mask[:] = 1 if bk == 0 else 0
                            P2[:, b.counter] = embed(im, space) * mask
                            a2.add(b.counter)
                    yield from resolve(idx + 1, P2, a2, F, fset)
            else:
                gv = evalpt(g, P, assigned_now)
                if gv is None:
                    bad_decl = True
                    return
                gin = gv[:n] if space == "in" else gv[n:n + m_out]
                if not any(np.abs(gin - im).max(initial=0.0) <= 1e-9 for im in imgs):
                    bad_decl = True      # the declaration does not describe this member (e.g. a non-stationary 'stationary point')
                    return
                yield from resolve(idx + 1, P, assigned_now, F, fset)

        seen_tuples = set()
        for P, F in resolve(0, P0, assigned, np.zeros(nF), frozenset()):
            stats["assignments"] = stats.get("assignments", 0) + 1
            G = P.T @ P
            # what every oracle call RETURNED must be an oracle answer of the member at the point it was called on
            tup = []
            mono = np.concatenate([G[iu], F, [1.0]])
            for (cx, cg, cf), fvec in zip(d.calls, call_fvecs):
                xv, gv = evalpt(cx, P, allP), evalpt(cg, P, allP)
                xin, gin = xv[:n], (gv[:n] if same_space else gv[n:n + m_out])
                imgs = member.grads(xin)
                if not any(np.abs(gin - im).max(initial=0.0) <= 1e-9 for im in imgs):
                    probs.append(("member-excluded:oracle-answer:%s" % cls,
                                  "an oracle call at %s returned the (sub)gradient %s, which real member %s (%s) does not have there (it has %s); "
                                  "declaration %s" % (np.round(xin, 4).tolist(), np.round(gin, 4).tolist(), member.name, par,
                                                      [np.round(i_, 4).tolist() for i_ in imgs], "".join(hist))))
                    break
                fval = float(fvec @ mono)
                if abs(fval - member.value(xin)) > 1e-8 * max(1.0, abs(fval)):
                    probs.append(("member-excluded:oracle-value:%s" % cls,
                                  "an oracle call at %s returned the value %.6g, real member %s (%s) has %.6g there; declaration %s"
                                  % (np.round(xin, 4).tolist(), fval, member.name, par, member.value(xin), "".join(hist))))
                    break
                tup.append(tuple(np.round(gin, 7).tolist()))
            if probs:
                return probs
            seen_tuples.add(tuple(tup))
            # functional_vec stores monomial coefficients: value = sum_{i<=j} c_ij <p_i,p_j> + sum c_k F_k + c_0
            if len(cons):
                vals = V @ mono
                scale = max(1.0, float(np.abs(mono).max()))
                for k, (val, sense) in enumerate(zip(vals, senses)):
                    if (sense == "inequality" and val > 1e-8 * scale) or (sense == "equality" and abs(val) > 1e-8 * scale):
                        probs.append(("member-excluded:%s" % cls,
                                      "constraint %s evaluates to %.6g on real member %s (parameters %s), declaration %s, points %s"
                                      % (cons[k].get_name(), val, member.name, par, "".join(hist), [np.round(c_, 3).tolist() for c_ in combo])))
                        break
            for T in lmis:
                if T is None:
                    continue
                Mv = T @ mono
                sc = max(1.0, float(np.abs(Mv).max()))
                if np.abs(Mv - Mv.T).max() > 1e-8 * sc or np.linalg.eigvalsh((Mv + Mv.T) / 2).min() < -1e-8 * sc:
                    probs.append(("member-excluded-lmi:%s" % cls, "the class LMI is not PSD (min eig %.3g, asymmetry %.3g) on real member %s (%s), declaration %s"
                                  % (np.linalg.eigvalsh((Mv + Mv.T) / 2).min(), np.abs(Mv - Mv.T).max(), member.name, par, "".join(hist))))
            if probs:
                return probs
        if bad_decl:
            stats["inconsistent-declaration"] = stats.get("inconsistent-declaration", 0) + 1
        elif d.calls and seen_tuples:
            # every call is answered independently by the member's oracle: every tuple of answers must be representable
            expected = 1
            for (cx, cg, cf) in d.calls:
                xin = evalpt(cx, P0, assigned)[:n]
                expected *= len({tuple(np.round(np.asarray(i_, dtype=float), 7).tolist()) for i_ in member.grads(xin)})
            if len(seen_tuples) < expected:
                probs.append(("member-excluded:answers-not-independent:%s" % cls,
                              "declaration %s on real member %s (%s) with points %s: the member's oracle has %d tuples of answers to the %d "
                              "calls, the declared objects can only take %d of them (two calls share one (sub)gradient object)"
                              % ("".join(hist), member.name, par, [np.round(c_, 3).tolist() for c_ in combo], expected, len(d.calls),
                                 len(seen_tuples))))
                return probs
    return probs


def _depth(tier):
    return 2 if tier == "quick" else 3


def claim_list():
    out = []
    for cls in models.CLASS_NAMES:
        for par in MEM.all_claims(cls):
            for m in MEM.members_of(cls, par):
                out.append((cls, par, m.name))
    return out


def shards(tier):
    out = [dict(kind="selftest")]
    cl = claim_list()
    for i in range(0, len(cl), 6):
        out.append(dict(kind="claims", lo=i, hi=min(len(cl), i + 6)))
    return out


def _member(name):
    return [m for m in MEM.ALL if m.name == name][0]


def run_shard(shard, tier):
    ev = tr = nontriv = 0
    outcomes, viol, samples = {}, [], []
    if shard["kind"] == "selftest":
        # the catalogue itself: every claim must pass the definitional self-test, and a false claim must be rejected
        for m in MEM.ALL:
            for cls, par in m.claims:
                r = MEM.selftest(m, cls, par)
                ev += 1
                if r:
                    raise RuntimeError("catalogue error (not a PEPit defect): %s is not a member of %s%s: %s" % (m.name, cls, par, r))
        controls = [(MEM.op_scale(2.0), "NonexpansiveOperator", {}), (MEM.quad1(2.0), "SmoothConvexFunction", {"L": 1.0}),
                    (MEM.abs1(2.0), "ConvexLipschitzFunction", {"M": 1.0}), (MEM.op_rot(0.0, 1.0), "CocoerciveOperator", {"beta": 1.0}),
                    (MEM.quad1(0.1), "StronglyConvexFunction", {"mu": 1.0})]
        for m, cls, par in controls:
            if MEM.selftest(m, cls, par) is None:
                raise RuntimeError("self-test is vacuous: it accepts %s as a member of %s%s" % (m.name, cls, par))
        return dict(evaluations=ev, states=ev, transitions=ev, nontrivial=ev, outcomes={"selftest-ok": ev}, violations=[], samples=[], extra={})
    stats = {}
    for cls, par, mname in claim_list()[shard["lo"]:shard["hi"]]:
        member = _member(mname)
        ops = ops_for(cls)
        for depth in range(1, _depth(tier) + 1):
            for hist in itertools.product(ops, repeat=depth):
                if hist.count("m") > 1:
                    continue         # one mirrored pair per history (each brings two more free grid points)
                others = [q for q in MEM.all_claims(cls) if not MEM._same_par(q, par) and set(q) == set(par)
                          and not any(isinstance(v_, list) for v_ in q.values())]
                variants = [None] + (others[:1] if depth <= 2 and cls != "BlockSmoothConvexFunction" else [])
                if depth == 2 and all(h in "ecm" for h in hist):
                    variants.append("same-names")
                for pre in variants:
                    names = pre == "same-names"
                    if names:
                        pre = None
                    try:
                        probs = judge(cls, par, member, hist, stats, pre, names)
                    except Exception as e:
                        probs = [("generation-raised:%s:%s" % (cls, type(e).__name__), "%s on %s %s %s" % (str(e)[:120], mname, par, "".join(hist)))]
                    if probs is None:
                        continue
                    ev += 1; tr += len(hist)
                    for k, msg in probs[:1]:
                        if pre is not None:
                            k, msg = k + ":after-parameter-change", msg + " [object first declared with %s]" % pre
                        if names:
                            k, msg = k + ":same-names", msg + " [first two evaluation points both named 'x']"
                        viol.append(dict(key=k, msg=msg, case=dict(cls=cls, par=par, member=mname, history="".join(hist), pre_par=pre, same_names=names)))
        if not samples:
            samples.append(dict(cls=cls, par=par, member=mname, history="es"))
    nontriv = stats.get("assignments", 0)
    outcomes = dict(stats)
    return dict(evaluations=max(ev, 1), states=max(ev, 1), transitions=max(tr, 1), nontrivial=nontriv, outcomes=outcomes, violations=viol,
                samples=samples, extra={"assignments_evaluated": stats.get("assignments", 0)})


def replay(case):
    member = _member(case["member"])
    pre = case.get("pre_par")
    names = bool(case.get("same_names"))
    probs = judge(case["cls"], case["par"], member, tuple(case["history"]), {}, pre, names)
    return [dict(key=k + (":after-parameter-change" if pre is not None else "") + (":same-names" if names else ""), msg=m, case=case)
            for k, m in (probs or [])[:1]]


def meta(tier):
    return dict(
        rule="for each of the %d membership claims (class, parameters, real member) of the catalogue (each self-tested against "
             "the class definition on a fine grid; the self-test is itself tested on false claims): all declaration histories of "
             "length <= %d over {e, r, c, m (mirrored pair, at most once), s, S, x (+ t, T for LinearOperator, v for Nonexpansive)} through the public API x all "
             "assignments of grid points (5 in R, 9 in R^2; stationary / fixed points from the member's own lists) x all listed "
             "subgradient selections (and, for histories <= 2, the same after the object was first declared with other parameters, its "
             "constraints generated, and its parameters then changed; and, for two-step evaluation histories, with the first two evaluation points given the same user name); every generated scalar constraint and class LMI is evaluated on the concrete samples, "
             "every (sub)gradient / value an oracle call RETURNED must be an answer of the member at that point, and every tuple of independent "
             "answers to the calls must be representable. "
             "evaluations = (claim, history) pairs; distinct_nontrivial = concrete assignments evaluated." % (len(claim_list()), _depth(tier)),
        bounds=dict(depth=_depth(tier), members=len(MEM.ALL), claims=len(claim_list())),
        exhaustive=True,
        assumptions=["finite catalogue: members outside it and dimensions > 2 are not explored",
                     "a declaration that does not describe the member (e.g. a stationary point where the member has none) is skipped"],
        trusted_base=["mc/catalog/members.py (with definitional self-tests)", "mc/refalg.py"],
    )
