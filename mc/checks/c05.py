"""C05 - the problem handed to the solver is exactly the declared model (translation validation of both encoders).

(shapes)  every coefficient dictionary over the keys {(p0,p0),(p0,p1),(p1,p0),(p1,p1),(p0,p2),(p2,p0), e0, e1, 1}, each
          key absent or carrying a coefficient of {0, 1, -2, 1/2}, plus the leaf case, through expression_to_matrices and
          expression_to_sparse_matrices; oracle = refalg.functional, exact (dyadic arithmetic).
(models)  every grammar model solved through recording subclasses of both wrappers; the cvxpy Problem actually built /
          the MOSEK task recorded by the stand-in is read back as functionals and compared, call by call, with the
          reference functional of the declared objects; the multiset of sent objects must equal the declared multiset.
"""
import itertools

import numpy as np

from mc import models, solving, recording as REC
from mc import refalg as R

PROPERTY = "C05"
LEVEL = "model_checking"

COEFS = [None, 0, 1, -2, 0.5]
COEFS_TINY = [None, 1, 1e-9, -3e-9]      # badly scaled expressions: tiny coefficients are coefficients
KEYS9 = ["p0p0", "p0p1", "p1p0", "p1p1", "p0p2", "p2p0", "e0", "e1", "one"]
KEYS7 = ["p0p0", "p0p1", "p1p0", "p0p2", "p2p0", "e0", "one"]


# ---- shapes -------------------------------------------------------------------------------------------------------

class ShapeWorld(object):
    def __init__(self):
        from PEPit import PEP, Point, Expression
        self.pep = PEP()
        self.Expression = Expression
        self.p = [Point() for _ in range(3)]
        self.e = [Expression() for _ in range(2)]
        p, e = self.p, self.e
        self.keymap = {"p0p0": (p[0], p[0]), "p0p1": (p[0], p[1]), "p1p0": (p[1], p[0]), "p1p1": (p[1], p[1]),
                       "p0p2": (p[0], p[2]), "p2p0": (p[2], p[0]), "e0": e[0], "e1": e[1], "one": 1}
        from PEPit.tools.expressions_to_matrices import expression_to_matrices, expression_to_sparse_matrices
        self.dense, self.sparse = expression_to_matrices, expression_to_sparse_matrices

    def judge(self, keys, coefs):
        d = {}
        for k, c in zip(keys, coefs):
            if c is not None:
                d[self.keymap[k]] = c
        ex = self.Expression(is_leaf=False, decomposition_dict=d)
        return self.judge_expr(ex)

    def judge_expr(self, ex):
        probs = []
        Gr, Fr, cr = R.functional(ex, 3, 2)
        try:
            G, F, c = self.dense(ex)
            if np.shape(G) != (3, 3) or np.shape(F) != (2,) or not (np.array_equal(G, Gr) and np.array_equal(F, Fr) and c == cr):
                probs.append(("shape:dense", "dense translation %s / %s / %r differs from the functional %s / %s / %r"
                              % (np.asarray(G).tolist(), np.asarray(F).tolist(), c, Gr.tolist(), Fr.tolist(), cr)))
        except Exception as e:
            probs.append(("shape:dense-raised:%s" % type(e).__name__, str(e)[:100]))
        try:
            Ai, Aj, Av, ai, av, alpha = self.sparse(ex)
            A = np.zeros((3, 3))
            bad = None
            seen = set()
            for i, j, v in zip(np.asarray(Ai).tolist(), np.asarray(Aj).tolist(), np.asarray(Av).tolist()):
                i, j = int(i), int(j)
                if i < j:
                    bad = "entry (%d,%d) above the diagonal" % (i, j)
                if (i, j) in seen:
                    bad = "duplicate entry (%d,%d)" % (i, j)
                seen.add((i, j))
                A[i, j] = v
                A[j, i] = v        # MOSEK's storage rule for a lower-triangular entry
            Fs = np.zeros(2)
            seenf = set()
            for k, v in zip(np.asarray(ai).tolist(), np.asarray(av).tolist()):
                if int(k) in seenf:
                    bad = "duplicate linear index %d" % k
                seenf.add(int(k))
                Fs[int(k)] = v
            if bad:
                probs.append(("shape:sparse-storage", bad))
            elif not (np.array_equal(A, Gr) and np.array_equal(Fs, Fr) and alpha == cr):
                probs.append(("shape:sparse", "sparse translation %s / %s / %r differs from the functional %s / %s / %r"
                              % (A.tolist(), Fs.tolist(), alpha, Gr.tolist(), Fr.tolist(), cr)))
        except Exception as e:
            probs.append(("shape:sparse-raised:%s" % type(e).__name__, str(e)[:100]))
        return probs


def run_shapes(keys, first, alphabet=None):
    w = ShapeWorld()
    ev = nontriv = 0
    viol, vals = [], set()
    for rest in itertools.product(alphabet or COEFS, repeat=len(keys) - len(first)):
        coefs = tuple(first) + rest
        probs = w.judge(keys, coefs)
        ev += 1
        if any(c not in (None, 0) for c in coefs):
            nontriv += 1
        for k, m in probs:
            if len(viol) < 30:
                viol.append(dict(key=k, msg=m, case=dict(kind="shape", keys=keys, coefs=list(coefs))))
    if list(first) == [None] * len(first):
        for leaf in w.e:
            for k, m in w.judge_expr(leaf):
                viol.append(dict(key=k + ":leaf", msg=m, case=dict(kind="shape-leaf")))
            ev += 1
    return ev, nontriv, viol


# ---- models -------------------------------------------------------------------------------------------------------

def close(a, b):
    a, b = np.asarray(a, float), np.asarray(b, float)
    return a.shape == b.shape and np.abs(a - b).max(initial=0.0) <= 1e-9 * max(1.0, np.abs(b).max(initial=0.0))


def judge_model(spec, backend):
    from PEPit.point import Point
    from PEPit.expression import Expression
    probs = []
    ctx = models.build(spec)
    pep = ctx.pep
    with REC.recording():
        r = solving.solve(pep, backend=backend)
    if r["exc"] is not None:
        n = type(r["exc"]).__name__
        if n == "SolverError":
            return [], "solver-error", 0
        return [("model:solve-raised:%s:%s" % (backend, n), str(r["exc"])[:200])], "raised", 0
    # what the user declared (kept by the grammar as plain lists at declaration time) is what the stored LMI objects denote
    declared_probs = []
    for name_, entries in (getattr(ctx, "declared_lmis", None) or {}).items():
        M_ = ctx.lmis[name_]
        nP_, nF_ = Point.counter, Expression.counter
        for i_ in range(len(entries)):
            for j_ in range(len(entries)):
                want_ = entries[i_][j_]
                want_v = R.functional_vec(want_, nP_, nF_) if hasattr(want_, "decomposition_dict") else np.concatenate([np.zeros(nP_ * (nP_ + 1) // 2 + nF_), [float(want_)]])
                if not close(R.functional_vec(M_[i_, j_], nP_, nF_), want_v):
                    declared_probs.append(("model:lmi-not-as-declared:%s" % backend, "entry (%d,%d) of LMI %s no longer denotes what was declared" % (i_, j_, name_)))
    out_ = validate_posed(pep, backend, regenerate=True)
    return (declared_probs[:1] + out_[0], out_[1], out_[2])


def validate_posed(pep, backend, dr=False, regenerate=False):
    """Translation validation of an already solved problem whose wrapper is a recording subclass.
    dr: a dimension-reduction heuristic was used: the final problem carries one extra (untracked) optimality row and a
    replaced objective, which are C11 / C14's business; they are accounted for, not judged, here."""
    from PEPit.point import Point
    from PEPit.expression import Expression
    probs = []
    w = pep.wrapper
    nP, nF = Point.counter, Expression.counter
    calls = getattr(w, "rec_calls", None)
    if calls is None:
        return [("model:wrapper-not-recorded:%s" % backend, "solve did not go through the registered wrapper class")], "norec", 0
    posed = REC.posed_cvxpy(w) if backend == "cvxpy" else REC.posed_mosek(w.task, nP, nF)
    for m in posed["problems"]:
        probs.append(("model:malformed:%s" % backend, m))
    if backend == "cvxpy" and (posed["n_gram"] != 1 or posed["n_other"] != 0):
        probs.append(("model:gram-constraint:%s" % backend, "%d Gram PSD constraints, %d unexpected constraints/variables" % (posed["n_gram"], posed["n_other"])))
    rows_by_index = {}
    for row in posed["rows"]:
        rows_by_index.setdefault(row["index"], []).append(row)
    # ---- declared multiset vs sent multiset
    scal, lmis, metrics = REC.declared_walk(pep)
    declared = {}
    for o in scal + lmis:
        declared[id(o)] = declared.get(id(o), 0) + 1
    sent = {}
    metric_calls = []
    for call in calls:
        kind, obj = call[0], call[1]
        if kind == "untracked":
            if not dr:
                probs.append(("model:untracked-row:%s" % backend, "an untracked constraint was sent without dimension reduction"))
            continue
        if id(obj) in declared:
            sent[id(obj)] = sent.get(id(obj), 0) + 1
        else:
            metric_calls.append(call)
    for k, n in declared.items():
        if sent.get(k, 0) != n:
            probs.append(("model:declared-not-sent:%s" % backend if sent.get(k, 0) < n else "model:sent-too-often:%s" % backend,
                          "a declared constraint / LMI was sent %d time(s), declared %d time(s)" % (sent.get(k, 0), n)))
            break
    # metric constraints: objective - metric <= 0, one per metric
    objvec = R.functional_vec(pep.objective, nP, nF)
    want = [objvec - R.functional_vec(m, nP, nF) for m in metrics]
    got = []
    for call in metric_calls:
        if call[0] != "scalar":
            probs.append(("model:undeclared-lmi:%s" % backend, "an LMI that nobody declared was sent"))
            continue
        got.append(call[1])
    if len(got) != len(want):
        probs.append(("model:undeclared-constraints:%s" % backend, "%d constraints outside the declared model were sent, %d metrics declared" % (len(got), len(want))))
    else:
        used = set()
        for con in got:
            v = R.functional_vec(con.expression, nP, nF)
            hit = [i for i, wv in enumerate(want) if i not in used and close(v, wv)]
            if not hit or con.equality_or_inequality != "inequality":
                probs.append(("model:metric-encoding:%s" % backend, "a constraint sent outside the declared model is not 'objective <= metric'"))
                break
            used.add(hit[0])
    # ---- numeric data of every call
    nrows = 0
    aux_seen = []
    for call in calls:
        kind, obj, b, e = call[:4]
        if kind in ("scalar", "untracked"):
            want_sense = "<=" if obj.equality_or_inequality == "inequality" else "=="
            idxs = list(range(b, e))
            rr = [row for i in idxs for row in rows_by_index.get(i, [])]
            nrows += len(rr)
            if len(rr) != 1 or e - b != 1:
                probs.append(("model:row-count:%s" % backend, "a scalar constraint produced %d solver rows" % len(rr)))
                continue
            row = rr[0]
            ref = R.functional_vec(obj.expression, nP, nF)
            if row["lmi"] is not None or row["sense"] != want_sense:
                probs.append(("model:sense:%s" % backend, "declared %s, solver row has sense %s" % (want_sense, row["sense"])))
            elif not close(row["vec"], ref):
                probs.append(("model:data:%s" % backend, "the data sent for a constraint denote another affine function than its expression"))
        else:
            n = obj.shape[0]
            rr = [row for i in range(b, e) for row in rows_by_index.get(i, [])]
            nrows += len(rr)
            if len(rr) != n * n:
                probs.append(("model:lmi-row-count:%s" % backend, "an LMI of size %d produced %d entry rows" % (n, len(rr))))
                continue
            ks = {row["lmi"][0] if row["lmi"] else None for row in rr}
            if len(ks) != 1 or None in ks or "bad" in ks:
                probs.append(("model:lmi-coupling:%s" % backend, "entries of one LMI are coupled to %s" % sorted(map(str, ks))))
                continue
            k = ks.pop()
            if k in aux_seen:
                probs.append(("model:lmi-coupling:%s" % backend, "two LMIs share one auxiliary matrix variable"))
            aux_seen.append(k)
            if k >= len(posed["lmis"]) or posed["lmis"][k] != n:
                probs.append(("model:lmi-size:%s" % backend, "LMI of size %d coupled to an auxiliary variable of size %s" % (n, posed["lmis"][k] if k < len(posed["lmis"]) else None)))
            pos = 0
            for i in range(n):
                for j in range(n):
                    row = rr[pos]; pos += 1
                    ref = R.functional_vec(obj[i, j], nP, nF)
                    if row["sense"] != "==" or tuple(row["lmi"][1:]) != (min(i, j), max(i, j)):
                        probs.append(("model:lmi-entry:%s" % backend, "entry (%d,%d) is tied to auxiliary entry %s with sense %s" % (i, j, row["lmi"][1:], row["sense"])))
                    elif not close(row["vec"], ref):
                        probs.append(("model:lmi-data:%s" % backend, "the data sent for LMI entry (%d,%d) denote another affine function" % (i, j)))
    if dr and backend == "cvxpy":
        nrows += 1          # the optimality row appended by prepare_heuristic (not a send call on the cvxpy path)
    if nrows != len(posed["rows"]):
        probs.append(("model:extra-rows:%s" % backend, "%d solver rows, %d accounted for by send calls" % (len(posed["rows"]), nrows)))
    if len(aux_seen) != len(posed["lmis"]):
        probs.append(("model:extra-matrix-variable:%s" % backend, "%d auxiliary matrix variables, %d LMIs sent" % (len(posed["lmis"]), len(aux_seen))))
    # ---- objective
    if not dr and (posed["objsense"] != "max" or not close(posed["objective"], objvec)):
        probs.append(("model:objective:%s" % backend, "the solver objective is not 'maximise the objective leaf'"))
    # ---- the class system of every leaf function: what was sent for the function must be what the function's own generator
    #      produces for its recorded samples (C04 compares that generator with the documented conditions) - whatever the
    #      number of samples and whichever way (directly / through its transpose) the function was used
    if regenerate:
        from PEPit.function import Function
        from mc.checks.c04 import nvec, lmi_forms
        sent_ids = {id(call[1]) for call in calls}
        for f in list(Function.list_of_functions):
            if not f.get_is_leaf():
                continue
            sent_sc = [c_ for c_ in f.list_of_class_constraints if id(c_) in sent_ids]
            sent_lm = [m_ for m_ in f.list_of_class_psd if id(m_) in sent_ids]
            try:
                f.set_class_constraints()
            except Exception as e:
                probs.append(("model:class-regeneration-raised:%s" % backend, "%s: %s" % (type(f).__name__, str(e)[:100])))
                continue
            nP2, nF2 = Point.counter, Expression.counter

            def fs(cons):
                out = set()
                for c_ in cons:
                    nv = nvec(R.functional_vec(c_.expression, nP2, nF2), c_.equality_or_inequality)
                    if nv:
                        out.add(nv)
                return out

            def ls(mats):
                out = set()
                for m_ in mats:
                    if m_.shape[0]:
                        sym, _ = lmi_forms(m_, nP2, nF2)
                        out.add((m_.shape[0],) + tuple(np.round(sym, 7).ravel().tolist()))
                return out
            want_sc, want_lm = fs(f.list_of_class_constraints), ls(f.list_of_class_psd)
            got_sc, got_lm = fs(sent_sc), ls(sent_lm)
            if want_sc - got_sc or want_lm - got_lm:
                probs.append(("model:class-system-not-sent:%s" % backend,
                              "%s with %d recorded sample(s): %d scalar class condition(s) and %d class LMI(s) that its own generator "
                              "produces for these samples did not reach the solver"
                              % (type(f).__name__, len(f.list_of_points), len(want_sc - got_sc), len(want_lm - got_lm))))
    # dedupe by key
    seen, out = set(), []
    for k, m in probs:
        if k not in seen:
            seen.add(k); out.append((k, m))
    return out, "checked", len(posed["rows"])


# ---- interface ----------------------------------------------------------------------------------------------------

CHUNK = 10


def model_cases(tier):
    specs = models.enumerate_specs(tier) + [models.big_spec(12)]
    if tier == "quick":
        specs = [s for i, s in enumerate(specs) if i % 2 == 0 or "extras" in s or "comp" in s] + [models.big_spec(12)]
    return [(s, be) for s in specs for be in ("cvxpy", "mosek")]


def shards(tier):
    out = []
    if tier == "quick":
        out += [dict(kind="shapes", keys="7", first=[c]) for c in COEFS]
    else:
        out += [dict(kind="shapes", keys="9", first=[a, b]) for a in COEFS for b in COEFS]
    n = len(model_cases(tier))
    out += [dict(kind="models", lo=lo, hi=min(n, lo + CHUNK)) for lo in range(0, n, CHUNK)]
    out += [dict(kind="shapes", keys="7", first=[c], tiny=True) for c in COEFS_TINY]
    from mc.checks.c01 import example_cases
    ne = len(example_cases(tier))
    out += [dict(kind="examples", lo=lo, hi=min(ne, lo + 8)) for lo in range(0, ne, 8)]
    return out


def run_shard(shard, tier):
    if shard["kind"] == "shapes":
        keys = KEYS7 if shard["keys"] == "7" else KEYS9
        ev, nontriv, viol = run_shapes(keys, shard["first"], COEFS_TINY if shard.get("tiny") else None)
        return dict(evaluations=ev, states=ev, transitions=2 * ev, nontrivial=nontriv, outcomes={"shape": ev},
                    violations=viol, samples=[dict(kind="shape", keys=keys, coefs=[shard["first"][0], 1, -2] + [None] * (len(keys) - 3))],
                    extra={"shapes": ev})
    if shard["kind"] == "examples":
        from mc.checks.c01 import example_cases
        from mc import solved
        ev = nontriv = 0
        outcomes, viol, samples = {}, [], []
        for name, kw, be in example_cases(tier)[shard["lo"]:shard["hi"]]:
            r = solved.run_example_as_model(name, kw, be)
            ev += 1
            nontriv += r["outcome"] == "judged"
            oc = "example:%s:%s" % (be, r["outcome"])
            outcomes[oc] = outcomes.get(oc, 0) + 1
            for key, msg in r["c05"]:
                viol.append(dict(key=key, msg=msg, case=dict(kind="example", example=name, kwargs=kw, backend=be)))
            if not samples:
                samples.append(dict(kind="example", example=name, kwargs=kw, backend=be))
        return dict(evaluations=ev, states=ev, transitions=max(ev, 1), nontrivial=int(nontriv), outcomes=outcomes, violations=viol,
                    samples=samples, extra={"examples_validated": int(nontriv)})
    cases = model_cases(tier)[shard["lo"]:shard["hi"]]
    ev = nontriv = rows = 0
    outcomes, viol, samples = {}, [], []
    for spec, be in cases:
        probs, label, nr = judge_model(spec, be)
        ev += 1
        rows += nr
        nontriv += 1 if label == "checked" else 0
        outcomes["%s:%s" % (be, label)] = outcomes.get("%s:%s" % (be, label), 0) + 1
        for k, m in probs:
            viol.append(dict(key=k, msg=m, case=dict(kind="model", spec=spec, backend=be)))
        if not samples:
            samples.append(dict(kind="model", spec=spec, backend=be, solver_rows=nr))
    return dict(evaluations=ev, states=ev, transitions=max(rows, 1), nontrivial=nontriv, outcomes=outcomes, violations=viol,
                samples=samples, extra={"solver_rows_validated": rows})


def replay(case):
    if case["kind"] == "shape":
        w = ShapeWorld()
        return [dict(key=k, msg=m, case=case) for k, m in w.judge(case["keys"], case["coefs"])]
    if case["kind"] == "shape-leaf":
        w = ShapeWorld()
        return [dict(key=k + ":leaf", msg=m, case=case) for leaf in w.e for k, m in w.judge_expr(leaf)]
    if case["kind"] == "example":
        from mc import solved
        r = solved.run_example_as_model(case["example"], case["kwargs"], case["backend"])
        return [dict(key=k, msg=m, case=case) for k, m in r["c05"]]
    probs, _, _ = judge_model(case["spec"], case["backend"])
    return [dict(key=k, msg=m, case=case) for k, m in probs]


def meta(tier):
    nk = 7 if tier == "quick" else 9
    return dict(
        rule="(shapes) all 5^%d coefficient dictionaries over %d keys (mirrored and diagonal inner products, leaf "
             "expressions, constant; each key absent or with coefficient 0, 1, -2, 1/2) + all 4^7 dictionaries over 7 keys with coefficients "
             "of {absent, 1, 1e-9, -3e-9} + leaf expressions, through the "
             "dense and the sparse encoder, compared exactly with the reference functional; (models) every grammar model "
             "x {cvxpy, MOSEK stand-in}: the solver-side problem is read back (cvxpy: basis evaluation of every "
             "constraint expression; MOSEK: recorded task data) and compared call by call with the declared objects "
             "(multiset, sense, affine data, LMI coupling, objective); the same validation for every shipped example with a closed "
             "form, solved as written on both back-ends. transitions = solver rows validated." % (nk, nk),
        bounds=dict(shape_keys=nk, coefficients=[str(c) for c in COEFS], model_cases=len(model_cases(tier))),
        exhaustive=True,
        assumptions=["cvxpy constraint expressions are affine (checked with is_affine), hence determined by their values "
                     "on a basis and the origin", "the MOSEK task is observed through the stand-in's recorded data, "
                     "interpreted with MOSEK's documented lower-triangular storage rule"],
        trusted_base=["mc/refalg.py", "mc/recording.py", "mc/mosek_standin/mosek/__init__.py"],
    )
