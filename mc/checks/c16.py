"""C16 - no number without a solution.

(A) every held object of every base model of the grammar, before any solve: eval / eval_dual must raise ValueError.
(B) all histories up to a depth over {real solve, solver answers 'no value' / 'error' (deviations), edits that make the
    model infeasible / unbounded and back, objects created after a solve from new leaves, MOSEK-path solve} on two
    base models; after every history every accessor of every object - and, before and after EVERY step, every accessor
    of the objects held from the start - is compared with a two-state reference model (has a current solution / has none).
(C) every unbounded / infeasible model of the grammar x back-end x solver: solve must return None.
(D) invalid option values must raise.
"""
import contextlib
import itertools
import math

import numpy as np

from mc import models, solving
from mc.solved import held_objects

PROPERTY = "C16"
LEVEL = "model_checking"

HIST_MODELS = {
    "gd": dict(cls="SmoothStronglyConvexFunction", par=0, pattern="sf", metric="dist", init="dist", n=1),
    "block_lmi": dict(cls="BlockSmoothConvexFunction", par=0, pattern="sf", metric="fval", init="dist", n=1,
                      extras=["lmi_sym", "fn_constraint"]),
    "quad": dict(cls="SmoothStronglyConvexQuadraticFunction", par=0, pattern="sf", metric="fval", init="dist", n=2),
}
NO_OPTIMUM = ("unbounded", "infeasible", "unbounded_inaccurate", "infeasible_inaccurate")
OPS = ["solve", "solve_novalue", "solve_error", "add_contradiction", "remove_contradiction", "drop_init", "restore_init",
       "new_objects", "solve_mosek", "solve_trace", "solve_aborted"]


class FaultAnswer(Exception):
    pass


@contextlib.contextmanager
def faulty_cvxpy(kind):
    """The solver is the environment: answer one solve with 'no finite value' or with a solver error."""
    import PEPit.wrappers as W
    from PEPit.wrappers.cvxpy_wrapper import CvxpyWrapper

    class FaultWrapper(CvxpyWrapper):
        def solve(self, **kwargs):
            if kind == "error":
                import cvxpy
                raise cvxpy.SolverError("injected solver failure")
            return "unbounded", "FAULT", None

    old = W.WRAPPERS["cvxpy"]
    W.WRAPPERS["cvxpy"] = FaultWrapper
    try:
        yield
    finally:
        W.WRAPPERS["cvxpy"] = old


def probe(obj, accessor):
    """('raise', exception class name) or ('value', finite?)"""
    try:
        v = getattr(obj, accessor)()
    except Exception as e:
        return ("raise", type(e).__name__)
    try:
        ok = bool(np.all(np.isfinite(np.asarray(v, dtype=float))))
    except Exception:
        ok = False
    return ("value", ok)


def all_objects(ctx, extra=()):
    from PEPit.point import Point
    from PEPit.expression import Expression
    objs = list(held_objects(ctx)) + list(extra)
    pep = ctx.pep
    objs.append(("leafpoint:0", Point.list_of_leaf_points[0]))
    objs.append(("leafexpr:0", Expression.list_of_leaf_expressions[0]) if Expression.list_of_leaf_expressions else ("leafpoint:1", Point.list_of_leaf_points[-1]))
    x0 = ctx.points["x0"]
    xn = ctx.points["xn"]
    lp = Point.list_of_leaf_points[min(1, len(Point.list_of_leaf_points) - 1)]
    objs.append(("derived:sum", x0 + xn))
    objs.append(("derived:prod", x0 * xn))
    objs.append(("derived:constraint", (x0 ** 2 <= ctx.exprs["dn"])))
    # every shape of a derived object with one, two or cancelling terms (one-term objects take shortcuts)
    objs.append(("derived1:neg", -x0))
    objs.append(("derived1:scaled", 0.5 * lp))
    objs.append(("derived1:div", lp / 4))
    objs.append(("derived1:cancel", (x0 + lp) - lp))
    objs.append(("derived1:square", lp ** 2))
    objs.append(("derived1:square-constraint", (x0 ** 2 <= 1)))
    if Expression.list_of_leaf_expressions:
        le = Expression.list_of_leaf_expressions[0]
        objs.append(("derived1:expr-scaled", 2 * le))
        objs.append(("derived1:expr-shift", le + 1))
        objs.append(("derived1:expr-constraint", (le <= 1)))
        objs.append(("derived1:expr-eq", (le == 0.5)))
        objs.append(("derived:expr-mixed", le - x0 * lp))
    from PEPit.psd_matrix import PSDMatrix as _PSD
    objs.append(("derived1:psd", _PSD([[x0 ** 2, 1], [1, 2]])))
    for k, c in enumerate(pep.list_of_constraints[:2]):
        objs.append(("pepconstraint:%d" % k, c))
    f = ctx.funcs["f"]
    for k, c in enumerate(f.list_of_class_constraints[:2]):
        objs.append(("classconstraint:%d" % k, c))
    for k, m in enumerate(f.list_of_class_psd[:1]):
        objs.append(("classlmi:%d" % k, m))
    part = getattr(ctx, "partition", None)
    if part is not None:
        for k, c in enumerate(part.list_of_constraints[:1]):
            objs.append(("partitionconstraint:%d" % k, c))
    return objs


def depends_on_leaves(obj):
    from PEPit.point import Point
    from PEPit.expression import Expression
    from PEPit.constraint import Constraint
    from PEPit.psd_matrix import PSDMatrix
    if isinstance(obj, Constraint):
        return depends_on_leaves(obj.expression)
    if isinstance(obj, PSDMatrix):
        return any(depends_on_leaves(obj[i, j]) for i in range(obj.shape[0]) for j in range(obj.shape[1]))
    if isinstance(obj, (Point, Expression)):
        return any(not (isinstance(k, (int, float)) and k == 1) and w != 0 for k, w in obj.decomposition_dict.items())
    return True


def judge_objects(objs, has_solution, sent_ids, tag, new_ids=()):
    """Compare every accessor of every object with the reference model."""
    from PEPit.constraint import Constraint
    from PEPit.psd_matrix import PSDMatrix
    probs, outc = [], {}
    for name, obj in objs:
        kind = name.split(":")[0]
        for acc in ("eval", "eval_dual"):
            if acc == "eval_dual" and not isinstance(obj, (Constraint, PSDMatrix)):
                continue
            if acc == "eval" and not depends_on_leaves(obj):
                continue
            got = probe(obj, acc)
            want_value = has_solution and id(obj) not in new_ids and (acc == "eval" or id(obj) in sent_ids)
            oc = "%s:%s:%s" % (acc, "value" if got[0] == "value" else got[1], "solved" if has_solution else "unsolved")
            outc[oc] = outc.get(oc, 0) + 1
            if want_value:
                if got[0] == "raise":
                    probs.append(("%s:raises-after-successful-solve:%s:%s" % (tag, kind, acc),
                                  "%s.%s() raised %s although the model has a current solution" % (name, acc, got[1])))
                elif not got[1]:
                    probs.append(("%s:non-finite:%s:%s" % (tag, kind, acc), "%s.%s() is not finite" % (name, acc)))
            else:
                if got[0] == "value":
                    probs.append(("%s:number-without-solution:%s:%s" % (tag, kind, acc),
                                  "%s.%s() returned a number although there is no solution it could belong to" % (name, acc)))
                elif got[1] != "ValueError":
                    probs.append(("%s:wrong-exception:%s:%s:%s" % (tag, kind, acc, got[1]),
                                  "%s.%s() raised %s instead of the documented ValueError" % (name, acc, got[1])))
    return probs, outc


def judge_tables(ctx, has_solution, tag):
    """get_class_constraints_duals() of every leaf function: without a solution it must raise the documented ValueError as
    soon as a table holds a constraint - never return numbers (nan included)."""
    from PEPit.function import Function
    from PEPit.constraint import Constraint
    probs = []
    for f in Function.list_of_functions:
        if not f.get_is_leaf():
            continue
        has_cell = any(isinstance(c_, Constraint) for t_ in f.tables_of_constraints.values() for c_ in getattr(t_, "values", np.zeros(0)).ravel()) \
            if all(hasattr(t_, "values") for t_ in f.tables_of_constraints.values()) else True
        try:
            out = f.get_class_constraints_duals()
        except Exception as e:
            if has_solution:
                probs.append(("%s:tables-raise-after-successful-solve:%s" % (tag, type(e).__name__), "get_class_constraints_duals() raised %s" % type(e).__name__))
            elif type(e).__name__ != "ValueError":
                probs.append(("%s:tables-wrong-exception:%s" % (tag, type(e).__name__), "get_class_constraints_duals() raised %s instead of ValueError" % type(e).__name__))
            continue
        if not has_solution and has_cell:
            probs.append(("%s:tables-number-without-solution" % tag, "get_class_constraints_duals() returned tables although there is no solution"))
    return probs


# ---- (A) ----------------------------------------------------------------------------------------------------------

def run_presolve(spec):
    try:
        ctx = models.build(spec)
        ctx.funcs["f"].set_class_constraints()
        part = getattr(ctx, "partition", None)
        if part is not None:
            part.add_partition_constraints()
    except Exception as e:
        return [("presolve:build-raised", "%s: %s" % (type(e).__name__, e))], {}
    return judge_objects(all_objects(ctx), False, set(), "presolve")


# ---- (B) ----------------------------------------------------------------------------------------------------------

def run_history(mname, hist):
    from PEPit.point import Point
    from PEPit.expression import Expression
    ctx = models.build(HIST_MODELS[mname])
    pep = ctx.pep
    init = pep.list_of_constraints[0]
    contradiction = (ctx.exprs["d0"] <= -1)
    has_solution = False
    extra, new_ids = [], set()
    probs = []
    # objects the user holds from the start and READS AFTER EVERY STEP (a value read once must not survive a failed solve)
    held = [o for o in all_objects(ctx) if not o[0].startswith(("classconstraint", "classlmi", "partitionconstraint"))]
    step_probs = []

    def read_all():
        if has_solution is None:
            return          # right after a solve call that raised half-way: unspecified until the next solve
        sent_now = ({id(c) for c in pep._list_of_constraints_sent_to_wrapper} | {id(m) for m in pep._list_of_psd_sent_to_wrapper}) if has_solution else set()
        pp, _ = judge_objects(held + extra, has_solution, sent_now, "history", new_ids)
        step_probs.extend(pp)
    for op in hist:
        read_all()
        feasible = contradiction not in pep.list_of_constraints
        bounded = init in pep.list_of_constraints
        if op in ("solve", "solve_mosek", "solve_trace"):
            r = solving.solve(pep, backend="mosek" if op == "solve_mosek" else "cvxpy",
                              dr="trace" if op == "solve_trace" else None)
            expect_value = feasible and bounded
            if r["exc"] is not None and type(r["exc"]).__name__ != "SolverError":
                if not expect_value:
                    return None, {}, "failing-model-raised"   # an exception reports, it does not fabricate
                probs.append(("history:solve-raised:%s" % type(r["exc"]).__name__, "%s raised %s" % (op, r["exc"])))
                return probs, {}, "raised"
            if op == "solve_mosek" and not expect_value:
                return None, {}, "skipped"      # failing models on the MOSEK path are judged in part (C)
            if expect_value and r["exc"] is None and r["value"] is None:
                return None, {}, "solver-gave-up"
            if not expect_value and r["status"] not in NO_OPTIMUM:
                # the solver itself claims an (inaccurate) optimum of a model without one: environment, not judged
                return None, {}, "solver-misclassified"
            if r["exc"] is not None:
                return None, {}, "solver-error"
            if not expect_value and r["value"] is not None:
                probs.append(("history:failed-solve-returns-number", "solve of an %s model returned %r"
                              % ("infeasible" if not feasible else "unbounded", r["value"])))
            has_solution = r["exc"] is None and r["value"] is not None and expect_value
            new_ids = set() if has_solution else new_ids
            if has_solution:
                extra = []     # objects created from new leaves before this solve are now part of the solved model
        elif op == "solve_aborted":
            # a solve call that raises AFTER the solver has answered (the invalid heuristic name is only looked at then):
            # what the accessors say right after it is left unspecified, the NEXT solve must start from a clean slate
            try:
                out_ = pep.solve(verbose=0, solver="CLARABEL", dimension_reduction_heuristic="not_a_heuristic")
                if out_ is not None:
                    probs.append(("history:invalid-option-accepted", "an invalid heuristic name was accepted and solve returned %r" % out_))
                has_solution = False      # no finite optimum: the name was never looked at, nothing was fabricated
            except Exception:
                has_solution = None
        elif op in ("solve_novalue", "solve_error"):
            with faulty_cvxpy("error" if op == "solve_error" else "novalue"):
                r = solving.solve(pep)
            if op == "solve_novalue" and (r["exc"] is not None or r["value"] is not None):
                probs.append(("history:novalue-answer", "solver answered 'no value' but solve returned %r / raised %r" % (r["value"], r["exc"])))
            has_solution = False
        elif op == "add_contradiction":
            if not feasible:
                return None, {}, "disabled"
            pep.add_constraint(contradiction)
        elif op == "remove_contradiction":
            if feasible:
                return None, {}, "disabled"
            pep.list_of_constraints.remove(contradiction)
        elif op == "drop_init":
            if not bounded:
                return None, {}, "disabled"
            pep.list_of_constraints.remove(init)
        elif op == "restore_init":
            if bounded:
                return None, {}, "disabled"
            pep.list_of_constraints.insert(0, init)
        elif op == "new_objects":
            z, e = Point(), Expression()
            new = [("new:leafpoint", z), ("new:leafexpr", e), ("new:mixed-point", z + ctx.points["x0"]),
                   ("new:mixed-expr", e + ctx.exprs["dn"]), ("new:constraint", (z ** 2 <= 1))]
            extra += new
            new_ids |= {id(o) for _, o in new}
    if has_solution is None:
        return (probs + step_probs) or None, {}, "unspecified-after-aborted-solve"
    sent = {id(c) for c in pep._list_of_constraints_sent_to_wrapper} | {id(m) for m in pep._list_of_psd_sent_to_wrapper}
    objs = all_objects(ctx, extra)
    p2, outc = judge_objects(objs, has_solution, sent if has_solution else set(), "history", new_ids)
    p2 += judge_tables(ctx, has_solution, "history")
    read_all()
    return probs + step_probs + p2, outc, "solved" if has_solution else "unsolved"


# ---- (C) ----------------------------------------------------------------------------------------------------------

FAIL_CONFIGS = [("cvxpy", "CLARABEL"), ("cvxpy", None), ("cvxpy", "SCS"), ("mosek", None)]
# the same with a solver stopped early (its answer is then `unbounded_inaccurate` / `infeasible_inaccurate`) and with loud solves
FAIL_CONFIGS_MORE = [("cvxpy", "SCS", {"max_iters": 20}, 0), ("cvxpy", "SCS", {"max_iters": 50}, 0), ("cvxpy", "CLARABEL", None, 1),
                     ("cvxpy", "CLARABEL", None, 2), ("mosek", None, None, 1)]


def run_failing(spec, backend, solver, extra=None, verbose=0):
    ctx = models.build(spec)
    r = solving.solve(ctx.pep, backend=backend, solver=solver, extra=extra, verbose=verbose)
    kind = "infeasible" if "contradiction" in spec.get("extras", []) else "unbounded"
    if r["exc"] is not None:
        n = type(r["exc"]).__name__
        if n == "SolverError":
            return [], {"failing:%s:solver-error" % backend: 1}
        return [("failing:raised:%s:%s" % (backend, n), "solve of an %s model raised %s: %s" % (kind, n, r["exc"]))], {}
    if r["status"] not in NO_OPTIMUM:
        return [], {"failing:%s:solver-misclassified:%s" % (backend, r["status"]): 1}
    if r["value"] is not None:
        return [("failing:returns-number:%s:%s" % (backend, kind),
                 "solve of an %s model returned %r (solver status %s)" % (kind, r["value"], r["status"]))], \
               {"failing:%s:number" % backend: 1}
    probs, outc = judge_objects(all_objects(ctx), False, set(), "after-failed-solve")
    probs += judge_tables(ctx, False, "after-failed-solve")
    outc["failing:%s:none" % backend] = 1
    return probs, outc


# ---- (D) ----------------------------------------------------------------------------------------------------------

INVALID = [
    ("return_primal_or_dual", "both"), ("return_primal_or_dual", "Dual"), ("return_primal_or_dual", None),
    ("return_primal_or_dual", ""), ("return_primal_or_dual", 0),
    ("dimension_reduction_heuristic", "Trace"), ("dimension_reduction_heuristic", "logdet"),
    ("dimension_reduction_heuristic", "logdetx"), ("dimension_reduction_heuristic", "rank"),
    ("dimension_reduction_heuristic", "trace2"), ("dimension_reduction_heuristic", 1),
    ("return_primal_or_dual", "prim"), ("return_primal_or_dual", "d"), ("return_primal_or_dual", "al"), ("return_primal_or_dual", "ualp"),
    ("return_primal_or_dual", "dual "), ("return_primal_or_dual", ["dual"]),
    ("dimension_reduction_heuristic", "logdet1.5"), ("dimension_reduction_heuristic", "tr"),
    ("notion", "abs"), ("notion", None), ("notion", "Relative"),
    ("opt", "PD_gapIV"), ("opt", "pd_gapi"), ("opt", None),
    # the same invalid values next to boundary values of the step's other arguments (a shortcut taken before the validation)
    ("notion", "abs", {"epsilon": 0}), ("notion", None, {"epsilon": 0}), ("notion", "Relative", {"epsilon": 0.0, "gamma": 0}),
    ("notion", "relativ", {"epsilon": 2}), ("notion", "", {"gamma": 0}),
    ("opt", "PD_gapIV", {"gamma": 0}), ("opt", None, {"gamma": 0}), ("opt", "PD_gap", {"gamma": 2}),
    ("d", 0), ("d", -1), ("d", 1.5), ("d", "2"), ("d", None),
    ("sense", "leq"), ("sense", None), ("sense", "Equality"),
    # wrapper names that are importable packages but no wrapper of the library (names of packages that are not installed fall back
    # to cvxpy by documented design and are not in this list)
    ("wrapper", "scs"), ("wrapper", "numpy"), ("wrapper", "clarabel"), ("wrapper", None), ("wrapper", 3),
    ("block", -1), ("block", -2), ("block", 2), ("block", 5), ("block", None), ("block", "0"),
    # the public attribute set to an invalid value AFTER the constraint was created, the model then solved on either path
    ("sense_after", "Equality"), ("sense_after", "equal"), ("sense_after", ""), ("sense_after", None),
    ("sense_after@mosek", "Equality"), ("sense_after@mosek", None),
    ("solver", "NOT_A_SOLVER"), ("solver", "CLARABLE"), ("solver", ""), ("solver", 3), ("solver", "scs "),
]


def run_invalid(case, spec=None, solver="CLARABEL"):
    name, val = case[0], case[1]
    aux = dict(case[2]) if len(case) > 2 else {}
    ctx = models.build(spec or HIST_MODELS["gd"])
    from PEPit.primitive_steps import inexact_gradient_step, inexact_proximal_step
    from PEPit.constraint import Constraint
    try:
        kw = {} if solver is None else {"solver": solver}
        if name == "return_primal_or_dual":
            out = ctx.pep.solve(verbose=0, return_primal_or_dual=val, **kw)
        elif name == "dimension_reduction_heuristic":
            out = ctx.pep.solve(verbose=0, dimension_reduction_heuristic=val, **kw)
        elif name == "solver":
            out = ctx.pep.solve(verbose=0, solver=val)
        elif name == "notion":
            out = inexact_gradient_step(ctx.points["x0"], ctx.funcs["f"], aux.get("gamma", 1.0), aux.get("epsilon", 0.1), notion=val)
        elif name == "opt":
            out = inexact_proximal_step(ctx.points["x0"], ctx.funcs["f"], aux.get("gamma", 1.0), opt=val)
        elif name == "d":
            out = ctx.pep.declare_block_partition(d=val)
        elif name == "sense":
            out = Constraint(ctx.exprs["dn"], val)
        elif name == "wrapper":
            out = ctx.pep.solve(verbose=0, wrapper=val, solver="CLARABEL")
        elif name == "block":
            out = ctx.pep.declare_block_partition(d=2).get_block(ctx.points["x0"], val)
        elif name.startswith("sense_after"):
            ctx.constraints["init"].equality_or_inequality = val
            r_ = solving.solve(ctx.pep, backend="mosek" if name.endswith("@mosek") else "cvxpy")
            if r_["exc"] is not None:
                raise r_["exc"]
            out = r_["value"]
    except Exception as e:
        return [], {"invalid:%s:raised:%s" % (name, type(e).__name__): 1}
    if (name in ("return_primal_or_dual", "dimension_reduction_heuristic", "solver", "wrapper") or name.startswith("sense_after")) and out is None:
        return [], {"invalid:%s:no-value" % name: 1}     # the solver found nothing: nothing was fabricated either
    return [("invalid-option-accepted:%s:%r" % (name, val), "%s=%r%s was accepted and returned %r"
             % (name, val, " (with %s)" % aux if aux else "", out if isinstance(out, float) else type(out).__name__))], {}


def invalid_cases(tier):
    """(option case, model spec or None, solver)"""
    out = []
    solve_opts = [c for c in INVALID if c[0] in ("return_primal_or_dual", "dimension_reduction_heuristic")]
    other = [c for c in INVALID if c not in solve_opts]
    out += [(c, None, "CLARABEL") for c in other]
    specs = base_specs(tier)[::2] + [dict(cls="ConvexFunction", par=0, pattern="sf", metric="dist", init="dist", n=0)]
    for spec in specs:
        for solver in ("CLARABEL", None):
            for c in solve_opts:
                out.append((c, spec, solver))
    return out


# ---- interface ----------------------------------------------------------------------------------------------------

def _depth(tier):
    return 3 if tier == "quick" else 4


def base_specs(tier):
    out = []
    for cls in models.CLASS_NAMES:
        info = models.CLASSES[cls]
        out.append(dict(cls=cls, par=0, pattern="sf", metric=info["metrics"][0], init="dist", n=1))
        out.append(dict(cls=cls, par=0, pattern="sl", metric=info["metrics"][-1], init="dist", n=1,
                        extras=["lmi_sym", "partition2", "fn_constraint", "fn_lmi"]))
    return out


def shards(tier):
    out = [dict(kind="presolve")]
    ni = len(invalid_cases(tier))
    out += [dict(kind="invalid", lo=lo, hi=min(ni, lo + 40)) for lo in range(0, ni, 40)]
    fs = models.failing_specs(tier)
    for lo in range(0, len(fs), 8):
        out.append(dict(kind="failing", lo=lo, hi=min(len(fs), lo + 8)))
    for m in (["gd", "block_lmi"] if tier == "quick" else list(HIST_MODELS)):
        for first in OPS:
            if tier == "quick":
                out.append(dict(kind="history", model=m, first=[first], depth=_depth(tier)))
            else:
                for second in OPS:
                    out.append(dict(kind="history", model=m, first=[first, second], depth=_depth(tier)))
    return out


def run_shard(shard, tier):
    ev = nontriv = tr = 0
    outcomes, viol, samples = {}, [], []

    def add(probs, outc, case, nontrivial=True):
        nonlocal ev, nontriv
        ev += 1
        nontriv += 1 if nontrivial else 0
        for k, v in outc.items():
            outcomes[k] = outcomes.get(k, 0) + v
        for key, msg in probs:
            viol.append(dict(key=key, msg=msg, case=case))

    if shard["kind"] == "presolve":
        for spec in base_specs(tier):
            p, o = run_presolve(spec)
            add(p, o, dict(kind="presolve", spec=spec))
        samples.append(dict(kind="presolve", spec=base_specs(tier)[1]))
    elif shard["kind"] == "invalid":
        ic = invalid_cases(tier)[shard["lo"]:shard["hi"]]
        for c, spec, solver in ic:
            p, o = run_invalid(c, spec, solver)
            add(p, o, dict(kind="invalid", case=list(c), spec=spec, solver=solver))
        samples.append(dict(kind="invalid", case=list(ic[0][0]), spec=ic[0][1], solver=ic[0][2]))
    elif shard["kind"] == "failing":
        for spec in models.failing_specs(tier)[shard["lo"]:shard["hi"]]:
            for be, solver in FAIL_CONFIGS:
                p, o = run_failing(spec, be, solver)
                add(p, o, dict(kind="failing", spec=spec, backend=be, solver=solver))
            if models.failing_specs(tier).index(spec) % 4 == 0:
                for be, solver, extra, vb in FAIL_CONFIGS_MORE:
                    p, o = run_failing(spec, be, solver, extra, vb)
                    add(p, o, dict(kind="failing", spec=spec, backend=be, solver=solver, extra=extra, verbose=vb))
        samples.append(dict(kind="failing", spec=models.failing_specs(tier)[shard["lo"]], backend="cvxpy", solver="CLARABEL"))
    else:
        first = tuple(shard["first"])
        for depth in range(len(first), shard["depth"] + 1):
            for rest in itertools.product(OPS, repeat=depth - len(first)):
                hist = first + rest
                p, o, label = run_history(shard["model"], hist)
                if p is None:
                    continue
                tr += len(hist)
                o = dict(o)
                o["history:" + label] = o.get("history:" + label, 0) + 1
                add(p, o, dict(kind="history", model=shard["model"], history=list(hist)), nontrivial=any(h.startswith("solve") for h in hist))
                if not samples and depth == shard["depth"]:
                    samples.append(dict(kind="history", model=shard["model"], history=list(hist), end_state=label))
    return dict(evaluations=ev, states=ev, transitions=max(tr, ev), nontrivial=nontriv, outcomes=outcomes, violations=viol,
                samples=samples[:1], extra={})


def replay(case):
    k = case["kind"]
    if k == "presolve":
        p, _ = run_presolve(case["spec"])
    elif k == "invalid":
        p, _ = run_invalid(tuple(case["case"]), case.get("spec"), case.get("solver", "CLARABEL"))
    elif k == "failing":
        p, _ = run_failing(case["spec"], case["backend"], case["solver"], case.get("extra"), case.get("verbose", 0))
    else:
        p, _, _ = run_history(case["model"], tuple(case["history"]))
    return [dict(key=a, msg=b, case=case) for a, b in (p or [])]


def meta(tier):
    return dict(
        rule="(A) 48 base models (2 per class) unsolved: every accessor of every held / leaf / derived / class / "
             "partition object must raise ValueError; (B) all histories of <= %d operations over %s on %s, judged "
             "after the last operation against the two-state reference model; (C) %d unbounded / infeasible grammar "
             "models x %s; (D) %d invalid option values (the two solve options on 25 models x 2 solvers). states = executed cases; non-trivial = history contains a solve."
             % (_depth(tier), OPS, ["gd", "block_lmi"] if tier == "quick" else list(HIST_MODELS),
                len(models.failing_specs(tier)), FAIL_CONFIGS, len(INVALID)),
        bounds=dict(depth=_depth(tier), ops=OPS),
        exhaustive=True,
        assumptions=["a solver exception (SolverError) on a failing model is tolerated and counted: it reports, it does "
                     "not fabricate", "objects whose value depends on no leaf (constants) are outside the must-raise oracle",
                     "MOSEK-path runs use the stand-in; on a non-optimal status it returns the all-zero solution"],
        trusted_base=["mc/mosek_standin/mosek/__init__.py"],
    )
