"""C08 - primitive steps encode exactly their defining optimality conditions.

(symbolic)  every step x option x step size / accuracy of {0, 1/2, 1, 2, 1e-9} x starting point {leaf, combination, point returned
            by a preceding step, the point the preceding step started from} x function {differentiable leaf, non-differentiable leaf, sum of both, sum with one term
            already evaluated at the starting point} after 0 or 1 preceding steps is executed on the real library; the
            returned objects, the EXACT set of samples and side constraints added to every function (diff of all lists
            before / after), the freshness of the leaves and the absence of any other effect are compared with a reference
            description transcribed from each step's documentation (mc.refalg canonical forms).
(concrete)  the reference descriptions themselves are validated against REAL operations (closed-form prox, exact line
            search, LMO, inexact directions on the boundary of the allowed error, epsilon-subgradients, mirror steps with a
            quadratic mirror map) on catalogue members: what the step records must hold on the real operation."""
import itertools

import numpy as np

from mc import refalg as R

PROPERTY = "C08"
LEVEL = "model_checking"

STEPS = ["prox", "inexact_abs", "inexact_rel", "els0", "els1", "els2", "lmo", "eps_sub", "iprox1", "iprox2", "iprox3", "breg_grad", "breg_prox", "breg_grad_n", "breg_prox_n"]
SIZES = [0, 0.5, 1, 2, 1e-9]
FUNCS = ["fd", "fn", "sum", "sum_eval", "scaled", "weighted_eval"]
FUNCS_THOROUGH = FUNCS + ["weighted", "nested", "zero"]
SIZES_THOROUGH = [0, 0.5, 1, 2, 3.5, 0.1, 1e-9, 1e6]
STARTS = ["leaf", "combo", "returned", "same"]
PRE = ["none", "prox", "grad"]
PRE_THOROUGH = PRE + ["prox+grad", "grad+prox", "els", "iprox1"]


class World(object):
    def __init__(self, func, start, pre):
        from PEPit import PEP, Point
        from PEPit.functions import SmoothStronglyConvexFunction, ConvexFunction, ConvexIndicatorFunction
        from PEPit.primitive_steps import proximal_step
        self.pep = p = PEP()
        self.fd = p.declare_function(SmoothStronglyConvexFunction, mu=0.1, L=1.0, name="fd")
        self.fn = p.declare_function(ConvexFunction, name="fn")
        self.ind = p.declare_function(ConvexIndicatorFunction, D=1.0, name="ind")
        self.h = p.declare_function(SmoothStronglyConvexFunction, mu=0.5, L=2.0, name="mirror")
        self.hn = p.declare_function(ConvexFunction, name="mirror_n")        # a mirror map that is not differentiable
        self.part = p.declare_block_partition(d=2)
        self.a, self.b = p.set_initial_point(name="a"), p.set_initial_point(name="b")
        self.ok = True
        self.terms = []
        if func == "fd":
            self.f = self.fd; self.terms = []
        elif func == "fn":
            self.f = self.fn
        elif func == "scaled":
            self.f = 2 * self.fd                  # a multiple of a single function
            self.f.set_name("F")
            self.terms = [(self.fd, 2)]
        elif func in ("weighted", "weighted_eval"):
            self.f = 2 * self.fd + 0.5 * self.fn
            self.f.set_name("F")
            self.terms = [(self.fd, 2), (self.fn, 0.5)]
        elif func == "nested":
            self.f = (self.fd + self.fn) + self.fd
            self.f.set_name("F")
            self.terms = [(self.fd, 2), (self.fn, 1)]
        elif func == "zero":
            self.f = self.fd + 0 * self.fn
            self.f.set_name("F")
            self.terms = [(self.fd, 1)]
        else:
            self.f = self.fd + self.fn
            self.f.set_name("F")
            self.terms = [(self.fd, 1), (self.fn, 1)]
        x0 = self.a
        from PEPit.primitive_steps import exact_linesearch_step, inexact_proximal_step
        for pstep in ([] if pre == "none" else pre.split("+")):
            if pstep == "prox":
                x0, _, _ = proximal_step(x0, self.f, 1)
            elif pstep == "grad":
                x0 = x0 - 0.5 * self.f.gradient(x0)
            elif pstep == "els":
                x0, _, _ = exact_linesearch_step(x0, self.f, [self.b])
            elif pstep == "iprox1":
                x0 = inexact_proximal_step(x0, self.f, 1.5, opt="PD_gapI")[0]
        if start == "leaf":
            if pre != "none":
                self.ok = False
            self.x0 = self.a
        elif start == "combo":
            self.x0 = x0 - 2 * self.b if pre != "none" else self.a - 2 * self.b
        elif start == "same":
            # the very point the preceding step(s) started from (a second, different step from one point)
            if pre == "none":
                self.ok = False
            self.x0 = self.a
        else:
            if pre == "none":
                self.ok = False
            self.x0 = x0
        if func in ("sum_eval", "weighted_eval") and self.ok:
            self.fd.oracle(self.x0)
        self.all_functions = [self.fd, self.fn, self.ind, self.h, self.hn] + ([self.f] if self.terms else [])

    def snapshot(self):
        from PEPit.point import Point
        from PEPit.expression import Expression
        from PEPit.function import Function
        return dict(
            points={id(f): list(f.list_of_points) for f in Function.list_of_functions},
            cons={id(f): list(f.list_of_constraints) for f in Function.list_of_functions},
            psd={id(f): list(f.list_of_psd) for f in Function.list_of_functions},
            stat={id(f): list(f.list_of_stationary_points) for f in Function.list_of_functions},
            nfun=len(Function.list_of_functions),
            pep=(list(self.pep.list_of_constraints), list(self.pep.list_of_psd), list(self.pep.list_of_performance_metrics), list(self.pep.list_of_points)),
            part=(list(self.part.list_of_constraints), dict(self.part.blocks_dict)),
            nP=Point.counter, nE=Expression.counter)


def cp(x):
    return R.of_point(x)


def ce(e):
    return R.of_expression(e)


def is_fresh_point(p_, before):
    return p_.get_is_leaf() and p_.counter >= before["nP"]


def is_fresh_expr(e, before):
    return e.get_is_leaf() and e.counter >= before["nE"]


def judge(step, size, func, start, pre):
    from PEPit.function import Function
    from PEPit import primitive_steps as PS
    w = World(func, start, pre)
    if not w.ok:
        return None, "disabled"
    f, x0 = w.f, w.x0
    probs = []
    dirs = None
    before = w.snapshot()
    try:
        if step == "prox":
            ret = PS.proximal_step(x0, f, size)
        elif step in ("inexact_abs", "inexact_rel"):
            ret = PS.inexact_gradient_step(x0, f, 0.5, size, notion="absolute" if step == "inexact_abs" else "relative")
        elif step.startswith("els"):
            nd = int(step[3])
            dirs = [w.b, x0 - w.a][:nd]
            dirs_before = list(dirs)
            ret = PS.exact_linesearch_step(x0, f, dirs)
        elif step == "lmo":
            f = w.ind
            ret = PS.linear_optimization_step(x0, w.ind)
        elif step == "eps_sub":
            ret = PS.epsilon_subgradient_step(x0, f, size)
        elif step.startswith("iprox"):
            if size == 0 and step == "iprox3":
                return None, "disabled"          # v = (x0 - x) / gamma is not defined for gamma = 0
            ret = PS.inexact_proximal_step(x0, f, size, opt={"iprox1": "PD_gapI", "iprox2": "PD_gapII", "iprox3": "PD_gapIII"}[step])
        elif step in ("breg_grad", "breg_grad_n"):
            hmap = w.h if step == "breg_grad" else w.hn
            gx0 = f.gradient(x0)
            sx0 = hmap.gradient(x0)
            before = w.snapshot()
            ret = PS.bregman_gradient_step(gx0, sx0, hmap, size)
        elif step in ("breg_prox", "breg_prox_n"):
            hmap = w.h if step == "breg_prox" else w.hn
            sx0 = hmap.gradient(x0)
            before = w.snapshot()
            ret = PS.bregman_proximal_step(sx0, hmap, f, size)
        else:
            raise KeyError(step)
    except Exception as e:
        return [("step-raised:%s:%s" % (step, type(e).__name__), "%s raised %s: %s" % (step, type(e).__name__, str(e)[:120]))], "raised"
    after = w.snapshot()

    def new_samples(fn):
        return after["points"][id(fn)][len(before["points"][id(fn)]):]

    def new_cons(fn):
        return after["cons"][id(fn)][len(before["cons"][id(fn)]):]

    def expect(cond, key, msg):
        if not cond:
            probs.append(("%s:%s" % (step, key), msg))

    def rel_close(d1, d2):
        # relative to the largest coefficient involved (a step of size 1e-9 divides by it: coefficients of order 1e9)
        big = max([1] + [abs(v_) for v_ in d1.values()] + [abs(v_) for v_ in d2.values()])
        return R.close(d1, d2, 1e-12 * big)

    def same_p(a, b):
        return rel_close(cp(a), b if isinstance(b, dict) else cp(b))

    def same_e(a, b):
        return rel_close(ce(a), b if isinstance(b, dict) else ce(b))

    def sample_at(fn, x, among=None):
        lst = among if among is not None else after["points"][id(fn)]
        return [t for t in lst if R.close(cp(t[0]), cp(x), 0)]

    def lin_p(terms):
        return R.lin([(c, cp(p_)) for c, p_ in terms])

    expected_samples = {id(fn): [] for fn in Function.list_of_functions}     # fn -> list of (x, g, f) canonical triples
    expected_cons = {id(fn): [] for fn in Function.list_of_functions}        # fn -> list of (sense, canonical expression)
    free_samples = set()          # functions whose new samples are governed by C07's invariants (terms of a composite)
    g_size = size

    def triple(x, g, v):
        return (cp(x), cp(g), ce(v))

    if step == "prox":
        x, gx, fx = ret
        expect(is_fresh_point(gx, before) and is_fresh_expr(fx, before), "fresh", "gx / fx are not fresh leaves")
        expect(same_p(x, lin_p([(1, x0), (-size, gx)])), "relation", "x is not x0 - gamma * gx")
        expected_samples[id(f)].append(triple(x, gx, fx))
    elif step in ("inexact_abs", "inexact_rel"):
        x, dx0, fx0 = ret
        expect(is_fresh_point(dx0, before), "fresh", "dx0 is not a fresh leaf")
        expect(same_p(x, lin_p([(1, x0), (-0.5, dx0)])), "relation", "x is not x0 - gamma * dx0")
        at = sample_at(f, x0)
        expect(len(at) >= 1, "sample", "f has no sample at x0")
        if at:
            gx0, f0 = at[-1][1], at[-1][2]
            expect(same_e(fx0, f0), "value", "returned fx0 is not the value of f at x0")
            if step == "inexact_abs":
                ref = R.sub(R.inner(R.sub(cp(gx0), cp(dx0)), R.sub(cp(gx0), cp(dx0))), R.const(size ** 2))
            else:
                ref = R.sub(R.inner(R.sub(cp(gx0), cp(dx0)), R.sub(cp(gx0), cp(dx0))), R.scale(size ** 2, R.inner(cp(gx0), cp(gx0))))
            expected_cons[id(f)].append(("inequality", ref))
            new = new_samples(f)
            expect(len(new) <= 1 and all(R.close(cp(t[0]), cp(x0), 0) for t in new), "samples", "unexpected samples recorded on f")
            expected_samples[id(f)] = [(cp(t[0]), cp(t[1]), ce(t[2])) for t in new]
    elif step.startswith("els"):
        x, gx, fx = ret
        expect(is_fresh_point(x, before), "fresh", "x is not a fresh leaf")
        at = sample_at(f, x, new_samples(f))
        expect(len(at) == 1 and at[0][1] is gx and at[0][2] is fx, "sample", "the returned (gx, fx) is not the sample of f at x")
        expected_samples[id(f)].append(triple(x, gx, fx))
        expected_cons[id(f)].append(("equality", R.inner(R.sub(cp(x), cp(x0)), cp(gx))))
        for d_ in dirs_before:
            expected_cons[id(f)].append(("equality", R.inner(cp(d_), cp(gx))))
        expect(len(dirs) == len(dirs_before) and all(a is b for a, b in zip(dirs, dirs_before)), "caller-list", "the caller's list of directions was modified")
    elif step == "lmo":
        x, gx, fx = ret
        expect(is_fresh_point(x, before) and is_fresh_expr(fx, before), "fresh", "x / fx are not fresh leaves")
        expect(same_p(gx, lin_p([(-1, x0)])), "relation", "gx is not -dir")
        expected_samples[id(w.ind)].append(triple(x, gx, fx))
    elif step == "eps_sub":
        x, g0, f0, eps = ret
        expect(is_fresh_point(g0, before) and is_fresh_expr(eps, before), "fresh", "g0 / epsilon are not fresh leaves")
        expect(same_p(x, lin_p([(1, x0), (-size, g0)])), "relation", "x is not x0 - gamma * g0")
        at0 = sample_at(f, x0)
        expect(len(at0) >= 1 and same_e(f0, at0[0][2]), "value", "f0 is not the value of f at x0")
        new = [t for t in new_samples(f) if t[1] is g0]
        expect(len(new) == 1 and is_fresh_point(new[0][0], before) and is_fresh_expr(new[0][2], before), "sample",
               "no fresh sample (y, g0, f(y)) recording g0 as a subgradient")
        if new:
            y, _, fy = new[0]
            fstar = R.sub(R.inner(cp(g0), cp(y)), ce(fy))
            ref = R.sub(R.add(R.add(ce(f0), fstar), R.scale(-1, R.inner(cp(g0), cp(x0)))), ce(eps))
            expected_cons[id(f)].append(("inequality", ref))
        others = [t for t in new_samples(f) if t[1] is not g0]
        expect(all(R.close(cp(t[0]), cp(x0), 0) for t in others) and len(others) <= 1, "samples", "unexpected samples recorded on f")
        expected_samples[id(f)] = [(cp(t[0]), cp(t[1]), ce(t[2])) for t in new_samples(f)]
    elif step.startswith("iprox"):
        x, gx, fx, wpt, v, fw, eps = ret
        expect(is_fresh_expr(eps, before), "fresh", "eps_var is not a fresh leaf")
        gamma = size
        e_ = R.add(R.sub(cp(x), cp(x0)), R.scale(gamma, cp(v)))
        gap = R.add(R.scale(0.5, R.inner(e_, e_)),
                    R.scale(gamma, R.sub(R.sub(ce(fx), ce(fw)), R.inner(cp(v), R.sub(cp(x), cp(wpt))))))
        expected_cons[id(f)].append(("inequality", R.sub(gap, ce(eps))))
        new = new_samples(f)
        if step == "iprox1":
            expect(all(is_fresh_point(q, before) for q in (x, gx, wpt, v)) and is_fresh_expr(fx, before) and is_fresh_expr(fw, before)
                   and len({id(q) for q in (x, gx, wpt, v)}) == 4, "fresh", "x, gx, w, v are not four fresh leaves")
            expected_samples[id(f)] += [triple(wpt, v, fw), triple(x, gx, fx)]
        elif step == "iprox2":
            expect(wpt is x and v is gx and fw is fx, "relation", "PD_gapII must return w = x, v = gx, fw = fx")
            expect(is_fresh_point(gx, before) and is_fresh_expr(fx, before), "fresh", "gx / fx are not fresh")
            err = R.sub(cp(x), lin_p([(1, x0), (-gamma, gx)]))
            expect(len(err) == 1 and list(err.values())[0] == 1 and list(err.keys())[0] >= before["nP"], "relation",
                   "x is not x0 - gamma * gx + e with e a fresh leaf")
            expected_samples[id(f)] += [triple(x, gx, fx)]
        else:
            expect(all(is_fresh_point(q, before) for q in (x, gx, wpt)) and len({id(q) for q in (x, gx, wpt)}) == 3, "fresh", "x, gx, w are not fresh leaves")
            expect(same_p(v, R.scale(1.0 / gamma, R.sub(cp(x0), cp(x)))), "relation", "v is not (x0 - x) / gamma")
            expected_samples[id(f)] += [triple(x, gx, fx), triple(wpt, v, fw)]
    elif step in ("breg_grad", "breg_grad_n"):
        x, sx, hx = ret
        expect(is_fresh_point(x, before) and is_fresh_expr(hx, before), "fresh", "x / hx are not fresh leaves")
        expect(same_p(sx, lin_p([(1, sx0), (-size, gx0)])), "relation", "sx is not sx0 - gamma * gx0")
        expected_samples[id(hmap)].append(triple(x, sx, hx))
    elif step in ("breg_prox", "breg_prox_n"):
        x, sx, hx, gx, fx = ret
        expect(is_fresh_point(x, before) and is_fresh_point(gx, before) and is_fresh_expr(hx, before) and is_fresh_expr(fx, before) and gx is not x,
               "fresh", "x, gx, hx, fx are not fresh leaves")
        expect(same_p(sx, lin_p([(1, sx0), (-size, gx)])), "relation", "sx is not sx0 - gamma * gx")
        expected_samples[id(hmap)].append(triple(x, sx, hx))
        expected_samples[id(f)].append(triple(x, gx, fx))
    # ---- exact sets: samples and constraints of every function, everything else untouched
    if w.terms and f is w.f:
        free_samples = {id(t) for t, _ in w.terms}
    for fn in Function.list_of_functions[:before["nfun"]]:
        new = [(cp(t[0]), cp(t[1]), ce(t[2])) for t in new_samples(fn)]
        if id(fn) in free_samples:
            # terms of the sum: at every point where the sum got a sample, the weighted sum of the terms' samples must be it
            continue
        exp = expected_samples[id(fn)]
        if sorted(map(_fz3, new)) != sorted(map(_fz3, exp)):
            probs.append(("%s:samples-added" % step, "function %s gained %d sample(s), the step documents %d (or different ones)"
                          % (fn.get_name(), len(new), len(exp))))
        newc = [(c.equality_or_inequality, ce(c.expression)) for c in new_cons(fn)]
        expc = expected_cons[id(fn)]
        if sorted(map(_fzc, newc)) != sorted(map(_fzc, expc)):
            probs.append(("%s:constraints-added" % step, "function %s gained constraints %s, the step documents %s"
                          % (fn.get_name(), [(s_, R.to_jsonable(e_)) for s_, e_ in newc][:3], [(s_, R.to_jsonable(e_)) for s_, e_ in expc][:3])))
        if after["psd"][id(fn)] != before["psd"][id(fn)]:
            probs.append(("%s:lmi-added" % step, "an LMI was added to %s" % fn.get_name()))
    if w.terms and f is w.f:
        for (xc, gc, vc) in expected_samples[id(f)]:
            # degenerate re-declaration: the step's new point coincides with a point where every term is differentiable
            # and was already evaluated (e.g. a proximal step of size 0 from an evaluated point): the terms' gradients are
            # already fixed there, the library records the declared sample on the sum only.  Outside what C08 states
            # (C07's business); counted, not judged.
            if all(t.reuse_gradient and any(R.close(cp(s_[0]), xc, 0) for s_ in before["points"][id(t)]) for t, _ in w.terms):
                continue
            tot_g, tot_v, ok = {}, {}, True
            for t, wt in w.terms:
                at = [s_ for s_ in after["points"][id(t)] if R.close(cp(s_[0]), xc, 0)]
                if not at:
                    ok = False
                    break
                tot_g = R.add(tot_g, R.scale(wt, cp(at[-1][1]))); tot_v = R.add(tot_v, R.scale(wt, ce(at[-1][2])))
            if not ok or not (R.close(tot_g, gc, 1e-12) and R.close(tot_v, vc, 1e-12)):
                probs.append(("%s:terms-not-tied" % step, "the sample recorded on the sum is not the sum of the samples recorded on its terms"))
    if len(Function.list_of_functions) != before["nfun"]:
        pass      # building 0.5 * g etc. never creates functions; composite arithmetic is not used by steps
    if after["pep"] != before["pep"]:
        probs.append(("%s:problem-modified" % step, "the step modified the problem's own constraints / LMIs / metrics / initial points"))
    if after["part"] != before["part"]:
        probs.append(("%s:partition-modified" % step, "the step modified a block partition"))
    seen, out = set(), []
    for k, m in probs:
        if k not in seen:
            seen.add(k); out.append((k, m))
    return out, "checked"


def _rz(d):
    """order-free form of a canonical dict with coefficients rounded to 12 significant digits (float rounding of e.g. 0.1**2)"""
    return tuple(sorted((repr(k), float("%.12g" % float(v))) for k, v in d.items() if abs(float(v)) > 1e-15))


def _fz3(t):
    return repr((_rz(t[0]), _rz(t[1]), _rz(t[2])))


def _fzc(t):
    return repr((t[0], _rz(t[1])))


# ---- concrete side: the reference descriptions hold on real operations --------------------------------------------------

def concrete_cases():
    """Each entry: (label, callable returning the max violation of what the step documents on a real operation)."""
    out = []
    quads = [0.1, 0.5, 1.0, 2.0]
    grid = [-2.0, -1.0, 0.0, 1.0, 2.0]
    gammas = [0.5, 1.0, 2.0]

    def prox_quad(a, g, x0):
        x = x0 / (1 + g * a)
        gx = a * x
        return abs(x - (x0 - g * gx))           # x = x0 - gamma gx with gx = f'(x)

    def prox_abs(M, g, x0):
        x = np.sign(x0) * max(abs(x0) - g * M, 0.0)
        gx = (x0 - x) / g
        inside = (abs(gx) <= M + 1e-12) if x == 0 else abs(gx - M * np.sign(x)) < 1e-12
        return 0.0 if inside else 1.0
    for a, g, x0 in itertools.product(quads, gammas, grid):
        out.append(("prox-quadratic", lambda a=a, g=g, x0=x0: prox_quad(a, g, x0)))
    for M, g, x0 in itertools.product([0.5, 1.0], gammas, grid):
        out.append(("prox-abs", lambda M=M, g=g, x0=x0: prox_abs(M, g, x0)))

    def els_quad(a, b, x0v):
        Q = np.diag([a, b]); x0v = np.array(x0v)
        d = Q @ x0v
        if d @ Q @ d == 0:
            return 0.0
        t = (d @ Q @ x0v) / (d @ Q @ d)
        x = x0v - t * d
        gx = Q @ x
        return max(abs(gx @ d), abs(gx @ (x - x0v)))
    for a, b in [(0.1, 1.0), (1.0, 2.0), (0.5, 0.5)]:
        for x0v in itertools.product([-1.0, 0.0, 1.0, 2.0], repeat=2):
            out.append(("linesearch-quadratic", lambda a=a, b=b, x0v=x0v: els_quad(a, b, x0v)))

    def lmo_interval(lo, hi, dirv):
        x = lo if dirv > 0 else hi
        # -dir must be in the normal cone at x: <-dir, y - x> <= 0 for all y in [lo, hi]
        return max(0.0, max(-dirv * (y - x) for y in (lo, hi, (lo + hi) / 2)))
    for lo, hi, dv in itertools.product([-1.0, 0.0], [1.0, 2.0], [-2.0, -1.0, 1.0, 3.0]):
        out.append(("lmo-interval", lambda lo=lo, hi=hi, dv=dv: lmo_interval(lo, hi, dv)))

    def inexact(a, x0, eps, rel, u):
        g = a * x0
        d = g + (eps * abs(g) if rel else eps) * u          # on the boundary of the allowed error
        lhs = (d - g) ** 2 - (eps ** 2 * g ** 2 if rel else eps ** 2)
        return max(0.0, lhs - 1e-12)
    for a, x0, eps, rel, u in itertools.product([0.5, 2.0], grid, [0.0, 0.3, 1.0], [False, True], [-1.0, 1.0]):
        out.append(("inexact-gradient-boundary", lambda a=a, x0=x0, eps=eps, rel=rel, u=u: inexact(a, x0, eps, rel, u)))

    def eps_sub_abs(M, x0, y):
        # g0 = a subgradient of M|.| at y is an eps-subgradient at x0 with eps = f(x0) + f*(g0) - g0 x0, f*(g0) = g0 y - f(y)
        worst = 0.0
        for g0 in ([M * np.sign(y)] if y != 0 else [-M, 0.0, M]):
            eps = M * abs(x0) + (g0 * y - M * abs(y)) - g0 * x0
            # definition: for all z, f(z) >= f(x0) + g0 (z - x0) - eps
            for z in np.linspace(-4, 4, 33):
                worst = max(worst, (M * abs(x0) + g0 * (z - x0) - eps) - M * abs(z))
            worst = max(worst, -eps)
        return max(0.0, worst - 1e-12)
    for M, x0, y in itertools.product([1.0, 2.0], grid, grid):
        out.append(("epsilon-subgradient-abs", lambda M=M, x0=x0, y=y: eps_sub_abs(M, x0, y)))

    def iprox_exact(a, g, x0):
        # the exact prox satisfies all three primal-dual gap criteria with eps = 0: x = w, v = gx = f'(x), e = 0
        x = x0 / (1 + g * a); v_ = a * x
        e = x - x0 + g * v_
        return abs(0.5 * e * e + g * 0.0)
    for a, g, x0 in itertools.product(quads, gammas, grid):
        out.append(("inexact-prox-exact-case", lambda a=a, g=g, x0=x0: iprox_exact(a, g, x0)))

    def iprox_gap(a, g, x0, x, w_):
        # general primal-dual pair for f = a/2 x^2: v = f'(w); gap formula = Phi_p(x) - Phi_d(v), f*(v) = v^2 / (2a)
        v_ = a * w_
        fx, fw = a / 2 * x * x, a / 2 * w_ * w_
        formula = 0.5 * (x - x0 + g * v_) ** 2 + g * (fx - fw - v_ * (x - w_))
        phi_p = g * fx + 0.5 * (x - x0) ** 2
        phi_d = -g * (v_ * v_ / (2 * a)) - 0.5 * (x0 - g * v_) ** 2 + 0.5 * x0 ** 2
        return abs(formula - (phi_p - phi_d))
    for a, g, x0, x, w_ in itertools.product([0.5, 2.0], [0.5, 2.0], [-1.0, 2.0], [-1.0, 0.5], [0.0, 1.5]):
        out.append(("inexact-prox-gap-formula", lambda a=a, g=g, x0=x0, x=x, w_=w_: iprox_gap(a, g, x0, x, w_)))

    def breg(c, a, g, x0, proxstep):
        # mirror map h = c/2 x^2, f = a/2 x^2: mirror gradient step  h'(x) = h'(x0) - g f'(x0); mirror prox  h'(x) = h'(x0) - g f'(x)
        if proxstep:
            x = c * x0 / (c + g * a)
            return abs(c * x - (c * x0 - g * a * x))
        x = (c * x0 - g * a * x0) / c
        return abs(c * x - (c * x0 - g * a * x0))
    for c, a, g, x0, ps in itertools.product([0.5, 2.0], [0.5, 1.0], gammas, grid, [False, True]):
        out.append(("bregman-quadratic", lambda c=c, a=a, g=g, x0=x0, ps=ps: breg(c, a, g, x0, ps)))
    return out


# ---- interface ------------------------------------------------------------------------------------------------------

def shards(tier):
    out = [dict(kind="concrete")]
    for step in STEPS:
        for func in (FUNCS_THOROUGH if tier != "quick" else FUNCS):
            out.append(dict(kind="symbolic", step=step, func=func))
    return out


def run_shard(shard, tier):
    ev = nontriv = 0
    outcomes, viol, samples = {}, [], []
    if shard["kind"] == "concrete":
        for label, fn in concrete_cases():
            val = fn()
            ev += 1
            outcomes[label] = outcomes.get(label, 0) + 1
            if val > 1e-9:
                raise RuntimeError("reference description of '%s' does not hold on the real operation (%.3g): harness error" % (label, val))
        return dict(evaluations=ev, states=ev, transitions=ev, nontrivial=ev, outcomes=outcomes, violations=[], samples=[dict(kind="concrete", cases=ev)], extra={})
    step, func = shard["step"], shard["func"]
    sizes = SIZES if tier == "quick" else SIZES_THOROUGH
    for size in sizes:
        for start in STARTS:
            for pre in (PRE if tier == "quick" else PRE_THOROUGH):
                probs, label = judge(step, size, func, start, pre)
                if probs is None:
                    continue
                ev += 1
                nontriv += 1 if size not in (0,) else 0
                outcomes[label] = outcomes.get(label, 0) + 1
                for k, m in probs:
                    viol.append(dict(key=k, msg=m, case=dict(step=step, size=size, func=func, start=start, pre=pre)))
                if not samples:
                    samples.append(dict(step=step, size=size, func=func, start=start, pre=pre))
    return dict(evaluations=ev, states=ev, transitions=ev, nontrivial=nontriv, outcomes=outcomes, violations=viol, samples=samples, extra={})


def replay(case):
    probs, _ = judge(case["step"], case["size"], case["func"], case["start"], case["pre"])
    return [dict(key=k, msg=m, case=case) for k, m in (probs or [])]


def meta(tier):
    return dict(
        rule="(symbolic) %d step variants (8 steps, all options, 0/1/2 line-search directions) x step size / accuracy in %s x "
             "functions %s x starting points %s x preceding step %s: returned objects, exact sets of samples and constraints "
             "added to every function, freshness of leaves, nothing else modified - against reference descriptions transcribed "
             "from the documentation; (concrete) %d real operations (prox of quadratics and |x|, exact line search on 2-d "
             "quadratics, LMO on intervals, inexact directions on the error boundary, epsilon-subgradients of M|x|, exact "
             "and general primal-dual pairs for the inexact prox, mirror steps with quadratic mirror maps) validate the "
             "reference descriptions themselves. non-trivial = step size / accuracy != 0."
             % (len(STEPS), SIZES, FUNCS, STARTS, PRE, len(concrete_cases())),
        bounds=dict(sizes=SIZES, steps=STEPS),
        exhaustive=True,
        assumptions=["the reference descriptions are transcribed from the step docstrings; the concrete cases show they are "
                     "satisfied by the real operations (not stronger), the symbolic comparison shows the library records "
                     "exactly them (not weaker / other)"],
        trusted_base=["mc/refalg.py"],
    )
