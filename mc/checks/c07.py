"""C07 - oracle bookkeeping of leaf and composite functions.

Explicit enumeration of ALL call histories up to a depth over the alphabet
    {oracle, gradient, value, __call__, stationary_point, fixed_point, proximal_step} x functions x points
on nine composite shapes, each history replayed on a fresh PEP with the real Function code.  After every history
(every prefix is itself an enumerated history, so every reachable state is judged) the invariants I1-I6 below are
evaluated on canonical decompositions (mc.refalg).
"""
import itertools
from fractions import Fraction

from mc import refalg as R

PROPERTY = "C07"
LEVEL = "model_checking"

SHAPES = ["sum", "weighted", "zero", "cancel", "nested", "scaled", "dd", "nn", "three", "double", "nil", "nested_rev", "cancel_rev"]
POINTS = ["x0", "x1", "x0c", "cancel", "combo", "combo_rev", "x0z", "last"]
OPS_FULL = ["oracle", "gradient", "value", "call", "stat", "fixed", "prox", "els", "iprox", "epssub", "bprox"]
OPS_RED = ["oracle", "value", "stat", "prox"]
TOL = Fraction(1, 10 ** 12)


class World(object):
    def __init__(self, shape):
        from PEPit import PEP
        from PEPit.functions import SmoothConvexFunction, ConvexFunction
        self.pep = PEP()
        p = self.pep
        f1 = p.declare_function(SmoothConvexFunction, L=1.)     # differentiable (reuse_gradient=True)
        f2 = p.declare_function(ConvexFunction)                 # non-differentiable
        self.leaves = {"f1": f1, "f2": f2}
        if shape == "sum": F = f1 + f2
        elif shape == "weighted": F = -1 * f1 + 2 * f2
        elif shape == "zero": F = f1 + 0 * f2
        elif shape == "cancel": F = f1 + f2 - f2
        elif shape == "nested": F = (f1 + f2) + f1
        elif shape == "nested_rev": F = f1 + (f1 + f2)           # shared leaf, the operand with FEWER leaves on the left
        elif shape == "cancel_rev": F = f2 - (f1 + f2)           # ... and a weight that cancels in that order (F = -f1)
        elif shape == "scaled": F = 3 * (f1 / 3)
        elif shape == "double": F = 2 * f1                      # a multiple of ONE term
        elif shape == "nil": F = f2 - f2                        # identically zero: its only term cancels
        elif shape == "dd":
            f3 = p.declare_function(SmoothConvexFunction, L=2.)
            self.leaves["f3"] = f3
            F = f1 + f3
            del self.leaves["f2"]
        elif shape == "nn":
            f4 = p.declare_function(ConvexFunction)
            self.leaves["f4"] = f4
            F = f2 + f4
            del self.leaves["f1"]
        elif shape == "three":
            f4 = p.declare_function(ConvexFunction)
            self.leaves["f4"] = f4
            F = f1 + 2 * f2 + f4
        else:
            raise KeyError(shape)
        self.F = F
        self.funcs = dict(self.leaves, F=F)
        # the weights the user wrote, independent of the library's own bookkeeping
        self.weights = {"sum": {"f1": 1, "f2": 1}, "weighted": {"f1": -1, "f2": 2}, "zero": {"f1": 1},
                        "cancel": {"f1": 1}, "nested": {"f1": 2, "f2": 1}, "scaled": {"f1": 1}, "double": {"f1": 2}, "nil": {},
                        "nested_rev": {"f1": 2, "f2": 1}, "cancel_rev": {"f1": -1},
                        "dd": {"f1": 1, "f3": 1}, "nn": {"f2": 1, "f4": 1}, "three": {"f1": 1, "f2": 2, "f4": 1}}[shape]
        self.differentiable = {"f1": True, "f2": False, "f3": True, "f4": False,
                               "F": all(n in ("f1", "f3") for n in self.weights)}
        x0 = p.set_initial_point()
        x1 = p.set_initial_point()
        # "x0c" and "cancel" denote x0 through other objects: a scaled copy, and a subtraction in which a leaf cancels exactly
        self.points = {"x0": x0, "x1": x1, "x0c": 1 * x0, "cancel": x1 - (x1 - x0), "combo": x0 - 0.5 * x1,
                       "combo_rev": -0.5 * x1 + x0,       # the same point as "combo", its leaves introduced in the other order
                       "x0z": x0 - 0 * x1}                # x0 again: a zero step along a leaf x0 does not contain
        self.returned = {}     # (fname, frozen point decomposition) -> list of ('g'|'v', canonical)
        self.declared_stationary = []   # (fname, point object)
        self.log = []

    def pkey(self, pt):
        return R.freeze(R.of_point(pt))

    def note(self, fname, pt, g=None, v=None):
        lst = self.returned.setdefault((fname, self.pkey(pt)), [])
        if g is not None:
            lst.append(("g", R.of_point(g)))
        if v is not None:
            lst.append(("v", R.of_expression(v)))

    def enabled(self, pname):
        return pname != "last" or "last" in self.points

    def op_enabled(self, op):
        # a mirror step whose mirror map is the sum and whose minimised function is one of its terms (they share a leaf);
        # the sum as its own mirror map is a contradictory declaration, not a query
        # (likewise when the sum reduces to a multiple of that single term: zero / cancelling weights, 3 * (f / 3))
        return not (op[1] == "bprox" and (op[0] == "F" or set(self.weights) == {op[0]}))

    def apply(self, op):
        from PEPit.primitive_steps import proximal_step
        fname, name, pname = op
        f = self.funcs[fname]
        if name in ("stat", "fixed"):
            if name == "stat":
                x, g, v = f.stationary_point(return_gradient_and_function_value=True)
                self.declared_stationary.append((fname, x))
            else:
                x, g, v = f.fixed_point()
            self.points["last"] = x
            self.note(fname, x, g, v)
            return
        pt = self.points[pname]
        if name == "oracle":
            g, v = f.oracle(pt)
            self.note(fname, pt, g, v)
        elif name == "gradient":
            self.note(fname, pt, g=f.gradient(pt))
        elif name == "value":
            self.note(fname, pt, v=f.value(pt))
        elif name == "call":
            self.note(fname, pt, v=f(pt))
        elif name == "prox":
            x, g, v = proximal_step(pt, f, 1)
            self.points["last"] = x
            self.note(fname, x, g, v)
        elif name == "els":
            from PEPit.primitive_steps import exact_linesearch_step
            x, g, v = exact_linesearch_step(pt, f, [self.points["x1"]])
            self.points["last"] = x
            self.note(fname, x, g, v)
        elif name == "iprox":
            from PEPit.primitive_steps import inexact_proximal_step
            x, gx, fx, w_, v_, fw, _ = inexact_proximal_step(pt, f, 2, opt="PD_gapI")
            self.points["last"] = x
            self.note(fname, x, gx, fx)
            self.note(fname, w_, v_, fw)
        elif name == "bprox":
            from PEPit.primitive_steps import bregman_proximal_step
            x, sx, hx, gx, fx = bregman_proximal_step(pt, self.F, f, 1)
            self.points["last"] = x
            self.note(fname, x, gx, fx)
            self.note("F", x, sx, hx)
        elif name == "epssub":
            from PEPit.primitive_steps import epsilon_subgradient_step
            x, g0, f0, _ = epsilon_subgradient_step(pt, f, 0.5)
            self.points["last"] = x
            self.note(fname, pt, v=f0)
        else:
            raise KeyError(name)


POINTS_RED = ["x0", "x1", "cancel", "combo", "last"]


def alphabet(shape, ops):
    w = World(shape)
    out = []
    for fname in sorted(w.funcs):
        for name in ops:
            if name in ("stat", "fixed"):
                out.append((fname, name, None))
            else:
                for pname in (POINTS if ops is OPS_FULL or ops is OPS_CORE else POINTS_MIN if ops is OPS_MIN else POINTS_RED):
                    out.append((fname, name, pname))
    return out


def judge(shape, hist):
    """Replays hist on a fresh world; returns (list of (key, msg), outcome label, canonical state)."""
    w = World(shape)
    probs = []
    for op in hist:
        if not w.enabled(op[2]) or not w.op_enabled(op):
            return None, "disabled", None
        try:
            w.apply(tuple(op))
        except Exception as e:
            probs.append(("raise:%s:%s" % (shape, op[1]), "%s raised %s: %s" % (op, type(e).__name__, e)))
            return probs, "raised", None
    funcs = w.funcs
    samples = {}
    for fname, f in funcs.items():
        samples[fname] = [(w.pkey(x), R.of_point(g), R.of_expression(v)) for (x, g, v) in f.list_of_points]
    # I1 one value per (function, point); I2 one gradient per point for differentiable functions
    for fname, trip in samples.items():
        byp = {}
        for pk, g, v in trip:
            byp.setdefault(pk, []).append((g, v))
        for (fn2, pk), rets in w.returned.items():
            if fn2 != fname:
                continue
            lst = byp.get(pk, [])
            for kind, val in rets:
                if kind == "v":
                    if not lst:
                        probs.append(("I1:%s:unrecorded" % shape, "%s returned a value at a point it has no sample for" % fname))
                    elif not R.close(val, lst[0][1], TOL):
                        probs.append(("I1:%s:returned" % shape, "%s returned a value different from the recorded one" % fname))
                elif w.differentiable[fname] and lst and not R.close(val, lst[0][0], TOL):
                    probs.append(("I2:%s:returned" % shape, "differentiable %s returned two gradients for one point" % fname))
        for pk, lst in byp.items():
            for g, v in lst[1:]:
                if not R.close(v, lst[0][1], TOL):
                    probs.append(("I1:%s:recorded" % shape, "%s has two function values at one point" % fname))
                if w.differentiable[fname] and not R.close(g, lst[0][0], TOL):
                    probs.append(("I2:%s:recorded" % shape, "differentiable %s has two gradients at one point" % fname))
    # I3 every sample of the composite is the weighted sum of samples of its terms at that point
    for pk, g, v in samples["F"]:
        cands, ok = [], True
        for tname, wt in w.weights.items():
            c = [(gg, vv) for (pk2, gg, vv) in samples[tname] if pk2 == pk]
            if not c:
                probs.append(("I3:%s:term-not-sampled" % shape, "term %s has no sample where the sum has one" % tname))
                ok = False
                break
            cands.append((wt, c))
        if not ok:
            continue
        found = False
        for choice in itertools.product(*[c for _, c in cands]):
            G = R.lin([(wt, ch[0]) for (wt, _), ch in zip(cands, choice)])
            V = R.lin([(wt, ch[1]) for (wt, _), ch in zip(cands, choice)])
            if R.close(G, g, TOL) and R.close(V, v, TOL):
                found = True
                break
        if not found:
            probs.append(("I3:%s:not-weighted-sum" % shape, "a sample of the sum is not the weighted sum of samples of its terms"))
    # I4 declared stationary points
    for fname, x in w.declared_stationary:
        f = funcs[fname]
        pk = w.pkey(x)
        mine = [(g, v) for (pk2, g, v) in samples[fname] if pk2 == pk]
        if not mine or any(g for g, _ in mine[:1]):
            probs.append(("I4:%s:gradient" % shape, "declared stationary point of %s has a non-zero (or no) gradient" % fname))
        if not any(w.pkey(t[0]) == pk for t in f.list_of_stationary_points):
            probs.append(("I4:%s:list" % shape, "declared stationary point missing from list_of_stationary_points"))
    # I6 a leaf function's samples at different points are independent fresh leaves (never shared objects)
    for fname in w.leaves:
        seen_g, seen_v = {}, {}
        for pk, g, v in samples[fname]:
            fv = R.freeze(v)
            if fv in seen_v and seen_v[fv] != pk:
                probs.append(("I6:%s:value-shared" % shape, "%s uses one function value for two different points" % fname))
            seen_v[fv] = pk
    if shape == "nil":
        # finding keys on the identically-zero sum say HOW its samples came about: handed over by a primitive step / a stationary- or
        # fixed-point declaration (which create the triplet themselves and register it with add_point) or produced by the sum's own oracle
        route = "declared-by-a-step" if any(o[1] == "bprox" or (o[0] == "F" and o[1] not in ("oracle", "gradient", "value", "call")) for o in hist) else "queried"
        probs = [(k + ":" + route, m) for k, m in probs]
    # canonical state (for state counting): multiset of canonical samples per function + returned table
    canon = tuple(sorted((fn, tuple(sorted((pk, R.freeze(g), R.freeze(v)) for pk, g, v in tr))) for fn, tr in samples.items()))
    nF = len(samples["F"])
    label = "F%d:" % min(nF, 3) + ",".join("%s%d" % (k, min(len(v), 3)) for k, v in sorted(samples.items()) if k != "F")
    return probs, label, canon


# ---- the `reuse_gradient` declaration of every shipped class ------------------------------------------------------------
# classes whose members are single-valued by definition (documented: the argument is ignored, the gradient is always reused)
SINGLE_VALUED = {"SmoothFunction", "SmoothConvexFunction", "SmoothStronglyConvexFunction", "SmoothStronglyConvexQuadraticFunction",
                 "SmoothConvexLipschitzFunction", "BlockSmoothConvexFunction", "CocoerciveOperator", "CocoerciveStronglyMonotoneOperator",
                 "LipschitzOperator", "LipschitzStronglyMonotoneOperator", "NonexpansiveOperator", "LinearOperator",
                 "SymmetricLinearOperator", "SkewSymmetricLinearOperator"}
DEFAULT_REUSE = {"NegativelyComonotoneOperator"}      # documented default True, but the argument is honoured


def judge_flag(cls, flag, route):
    """flag in (True, False, None = default); route: how the point is queried twice."""
    from PEPit import PEP, Point
    from mc import models
    probs = []
    p = PEP()
    kw = dict(models.CLASSES[cls]["params"][0])
    if cls == "BlockSmoothConvexFunction":
        kw["partition"] = p.declare_block_partition(d=len(kw["L"]))
    if flag is not None:
        kw["reuse_gradient"] = flag
    f = p.declare_function(models.get_class(cls), **kw)
    x = Point()
    y = 1 * x                      # a second object with the same decomposition
    if route == "gradient":
        g1, g2 = f.gradient(x), f.gradient(x)
        v1 = v2 = None
    elif route == "oracle":
        (g1, v1), (g2, v2) = f.oracle(x), f.oracle(x)
    elif route == "copy":
        (g1, v1), (g2, v2) = f.oracle(x), f.oracle(y)
    else:
        F = 2 * f
        g1, v1 = f.oracle(x)
        G2, V2 = F.oracle(x)
        g2, v2 = G2 / 2, V2 / 2
    expect_same = flag is True or cls in SINGLE_VALUED or (flag is None and cls in DEFAULT_REUSE)
    same = R.close(R.of_point(g1), R.of_point(g2), TOL)
    if expect_same and not same:
        probs.append(("flag:%s:new-gradient-although-declared-single-valued" % cls,
                      "%s(reuse_gradient=%s): two queries (%s) at one point returned two different images" % (cls, flag, route)))
    if not expect_same and same:
        probs.append(("flag:%s:same-subgradient-although-declared-multi-valued" % cls,
                      "%s(reuse_gradient=%s): the second query (%s) at one point cannot return another subgradient" % (cls, flag, route)))
    if v1 is not None and not R.close(R.of_expression(v1), R.of_expression(v2), TOL):
        probs.append(("flag:%s:two-values" % cls, "%s(reuse_gradient=%s): two values at one point (%s)" % (cls, flag, route)))
    return probs, "flag:%s" % ("same" if same else "new")


FLAG_CASES = None


def flag_cases():
    from mc import models
    return [(cls, flag, route) for cls in models.CLASS_NAMES for flag in (True, False, None) for route in ("gradient", "oracle", "copy", "sum")]


OPS_CORE = ["oracle", "gradient", "value", "call", "stat", "fixed", "prox"]
OPS_MIN = ["oracle", "stat", "prox"]
POINTS_MIN = ["x0", "cancel", "last"]


def _bounds(tier):
    # list of (name, ops alphabet, depth); the point alphabet goes with the ops alphabet (see alphabet())
    if tier == "quick":
        return [("full", OPS_FULL, 2), ("reduced", OPS_RED, 3)]
    # thorough: everything of the quick tier, the 7 core calls to depth 3 on all 6 points, and a minimal alphabet to depth 4
    return [("full", OPS_FULL, 2), ("reduced", OPS_RED, 3), ("core", OPS_CORE, 3), ("minimal", OPS_MIN, 4)]


def shards(tier):
    out = [dict(kind="flags")]
    for aname, ops, depth in _bounds(tier):
        for shape in SHAPES:
            n = len(alphabet(shape, ops))
            for first in range(n):
                out.append(dict(shape=shape, alphabet=aname, depth=depth, first=first))
    return out


def run_shard(shard, tier):
    if shard.get("kind") == "flags":
        ev, outcomes, viol = 0, {}, []
        for cls, flag, route in flag_cases():
            try:
                probs, label = judge_flag(cls, flag, route)
            except Exception as e:
                probs, label = [("flag:%s:raised:%s" % (cls, type(e).__name__), "%s(reuse_gradient=%s), %s: %s" % (cls, flag, route, str(e)[:120]))], "raised"
            ev += 1
            outcomes[label] = outcomes.get(label, 0) + 1
            for k, m in probs:
                viol.append(dict(key=k, msg=m, case=dict(kind="flag", cls=cls, flag=flag, route=route)))
        return dict(evaluations=ev, states=ev, transitions=2 * ev, nontrivial=ev, outcomes=outcomes, violations=viol,
                    samples=[dict(kind="flag", cls="MonotoneOperator", flag=True, route="oracle")], extra={})
    ops = {"full": OPS_FULL, "reduced": OPS_RED, "core": OPS_CORE, "minimal": OPS_MIN}[shard["alphabet"]]
    shape = shard["shape"]
    alpha = alphabet(shape, ops)
    first = alpha[shard["first"]]
    ev = tr = nontriv = 0
    outcomes, viol, samples, states = {}, [], [], set()
    for depth in range(1, shard["depth"] + 1):
        for rest in itertools.product(alpha, repeat=depth - 1):
            hist = (first,) + rest
            # the reduced alphabet at its full depth only adds what the full alphabet has not covered at lower depth
            probs, label, canon = judge(shape, hist)
            if probs is None:
                continue
            ev += 1
            tr += len(hist)
            if canon is not None:
                states.add(canon)
            if label not in ("raised",) and not label.startswith("F0"):
                nontriv += 1
            outcomes[label] = outcomes.get(label, 0) + 1
            for key, msg in probs:
                if len(viol) < 40:
                    viol.append(dict(key=key, msg=msg, case=dict(shape=shape, history=[list(o) for o in hist])))
            if not samples and depth == shard["depth"] and ev % 7 == 0:
                samples.append(dict(shape=shape, history=[list(o) for o in hist], outcome=label))
    return dict(evaluations=ev, states=len(states), transitions=tr, nontrivial=nontriv, outcomes=outcomes,
                violations=viol, samples=samples[:1], extra={"histories": ev})


def replay(case):
    if case.get("kind") == "flag":
        probs, _ = judge_flag(case["cls"], case["flag"], case["route"])
        return [dict(key=k, msg=m, case=case) for k, m in probs]
    probs, label, canon = judge(case["shape"], [tuple(o) for o in case["history"]])
    return [dict(key=k, msg=m, case=case) for k, m in (probs or [])]


def meta(tier):
    return dict(
        rule="all call histories up to the depth bound over {oracle, gradient, value, __call__, stationary_point, "
             "fixed_point, proximal_step, exact_linesearch_step, inexact_proximal_step, epsilon_subgradient_step, bregman_proximal_step (mirror map = the sum)} x {terms, sum} x {x0, x1, a second object with x0's decomposition, x1 - (x1 - x0), a "
             "combination, the same combination with its leaves introduced in the other order, the point created by the latest stationary_point/fixed_point/proximal_step} on 9 composite "
             "shapes (sum, weighted, zero weight, cancelling weight, nested, 3*(f/3), two differentiable, two "
             "non-differentiable, three terms); each history is replayed on a fresh PEP and judged by invariants I1-I6. "
             "states = distinct canonical sample tables (per shard); non-trivial = the sum has at least one sample.  Plus, for "
             "each of the 24 classes x reuse_gradient in {True, False, default} x {gradient twice, oracle twice, a second object "
             "with the same decomposition, through 2*f}: single-valued exactly when declared (or single-valued by definition).",
        bounds={"alphabets": [dict(name=a, ops=o, depth=d) for a, o, d in _bounds(tier)], "shapes": SHAPES},
        exhaustive=True,
        assumptions=["user-declared contradictory triplets (add_point with a second value for the same point) are "
                     "outside the alphabet: the property is about queries"],
    )
