"""C13 - solving again gives fresh, consistent answers.

All sequences up to a depth over {solve (dual / primal / trace / logdet1 / MOSEK path), edits (replace the initial
condition, add a metric, add an LMI, add / remove a contradicting constraint, decompose a new point, evaluate a held LMI
and then add it, replace the first metric, apply a step with a side condition), evaluate every held object, build new derived objects, solver answers 'no value' / 'error'
(deviations, at most 2)} on four base models (and, with a reduced alphabet plus 'evaluate the adjoint at a new point', on
a linear-operator model and on a model whose class records a stationary point by itself).  After the last operation of every sequence (every prefix is itself
enumerated) the long-lived problem is compared with a FRESHLY BUILT equivalent model (same edits, new PEP(), one solve
with the same options): values, numbering-free summary of the data sent, certificate and instance for the latest solve,
eval() of every held object against the current solution, and accessors after a solve without solution."""
import itertools

import numpy as np

from mc import models, solving, recording as REC, certificate as CERT
from mc import refalg as R
from mc.checks.c16 import faulty_cvxpy, probe, NO_OPTIMUM
from mc.solved import held_objects

PROPERTY = "C13"
LEVEL = "model_checking"

BASE = {
    "gd": dict(cls="SmoothStronglyConvexFunction", par=0, pattern="sf", metric="dist", init="dist", n=1),
    "block": dict(cls="BlockSmoothConvexFunction", par=0, pattern="sf", metric="fval", init="dist", n=1),
    "quad": dict(cls="SmoothStronglyConvexQuadraticFunction", par=0, pattern="sf", metric="fval", init="dist", n=2),
    "comp": dict(cls="SmoothStronglyConvexFunction", par=0, pattern="sf", comp="sum", step="prox", metric="dist", init="dist",
                 n=1, extras=["lmi_sym"]),
    # an operator whose class system is built from its own samples AND from those of its adjoint
    "linop": dict(cls="LinearOperator", par=0, pattern="sf", step="lin_A", metric="grad", init="dist", n=1),
    # a class that records a stationary point itself while its constraints are generated (at every solve)
    "qgnone": dict(cls="ConvexQGFunction", par=0, pattern="none", metric="negdist", init="dist", n=1),
}
SOLVES = {
    "solve": dict(backend="cvxpy", mode="dual", dr=None),
    "solve_default": dict(backend="cvxpy", mode="dual", dr=None, solver=None),                      # no solver option at all
    "solve_scs_capped": dict(backend="cvxpy", mode="dual", dr=None, solver="SCS", extra={"max_iters": 3}),   # an option that must not outlive its solve
    "solve_primal": dict(backend="cvxpy", mode="primal", dr=None),
    "solve_trace": dict(backend="cvxpy", mode="dual", dr="trace"),
    "solve_logdet1": dict(backend="cvxpy", mode="dual", dr="logdet1"),
    "solve_mosek": dict(backend="mosek", mode="dual", dr=None),
}
FAULTS = ["answer_novalue", "answer_error"]
EDITS = ["replace_init", "add_metric", "add_lmi", "add_contradiction", "remove_contradiction", "new_block", "held_lmi", "more_samples",
         "hand_partition_constraint", "adjoint_sample", "replace_metric", "side_condition_step"]
OTHER = ["eval_held", "new_derived"]
OPS = list(SOLVES) + FAULTS + EDITS + OTHER


def apply_edit(ctx, op, solved_flag):
    """Edits are deterministic functions of the context so that they can be replayed on a fresh model.
    Returns False if the edit is not enabled in this state."""
    from PEPit import Expression, PSDMatrix
    pep = ctx.pep
    st = ctx.__dict__.setdefault("c13", dict(contradiction=None, n_lmi=0, n_metric=0, n_block=0, n_held=0))
    if op == "replace_init":
        old = ctx.constraints["init"]
        if old not in pep.list_of_constraints:
            return False
        pep.list_of_constraints.remove(old)
        new = (ctx.exprs["d0"] <= 4) if not ctx.__dict__.get("c13_init4") else (ctx.exprs["d0"] <= 1)
        ctx.c13_init4 = not ctx.__dict__.get("c13_init4")
        pep.set_initial_condition(new)
        ctx.constraints["init_replaced_%d" % len(ctx.constraints)] = old
        ctx.constraints["init"] = new
    elif op == "add_metric":
        if st["n_metric"] >= 2:
            return False
        st["n_metric"] += 1
        m = 0.5 * ctx.exprs["dn"] + 0.125 * st["n_metric"]
        ctx.exprs["metric_added_%d" % st["n_metric"]] = m
        pep.set_performance_metric(m)
    elif op == "add_lmi":
        if st["n_lmi"] >= 2:
            return False
        st["n_lmi"] += 1
        e = Expression()
        ctx.exprs["e_added_%d" % st["n_lmi"]] = e
        ctx.lmis["lmi_added_%d" % st["n_lmi"]] = pep.add_psd_matrix([[ctx.exprs["dn"] + 1, e], [e, 2]])
        pep.set_performance_metric(e + 0.5)
    elif op == "add_contradiction":
        if st["contradiction"] is not None:
            return False
        st["contradiction"] = (ctx.exprs["d0"] <= -1)
        pep.add_constraint(st["contradiction"])
    elif op == "remove_contradiction":
        if st["contradiction"] is None:
            return False
        pep.list_of_constraints.remove(st["contradiction"])
        ctx.constraints["contradiction_removed_%d" % len(ctx.constraints)] = st["contradiction"]
        st["contradiction"] = None
    elif op == "new_block":
        part = getattr(ctx, "partition", None)
        if part is None or st["n_block"] >= 2:
            return False
        st["n_block"] += 1
        pt = ctx.points["xn"] if st["n_block"] == 1 else ctx.points["x0"] + ctx.points["xn"]
        ctx.exprs["newblocks_%d" % st["n_block"]] = [part.get_block(pt, k) ** 2 for k in range(part.get_nb_blocks())]
    elif op == "more_samples":
        # new samples that reach the functions without their own oracle() being called: a further stationary point, and an
        # evaluation of the SUM at a new point (its terms get their samples through add_point)
        if st.get("n_more", 0) >= 1:
            return False
        st["n_more"] = 1
        tgt = ctx.funcs.get("F", ctx.funcs["f"])
        from PEPit import Point
        from PEPit.primitive_steps import proximal_step
        # (a) a sample declared by a step: recorded through add_point, no oracle() call on the function itself
        xp, gp, fp = proximal_step(ctx.points["x0"], tgt, 0.5)
        ctx.points["more_prox"] = xp
        pep.add_constraint((xp - ctx.points["x0"]) ** 2 <= 4)
        # (b) an evaluation of the (possibly composite) function at a new point
        if st.get("n_more_variant", 0) == 0 and "F" in ctx.funcs:
            z = Point()
            tgt.oracle(z)
            ctx.points["more_z"] = z
            pep.add_constraint((z - ctx.points["x0"]) ** 2 <= 0.25)
    elif op == "replace_metric":
        # the number of metrics does not change: the first one is REPLACED by another expression
        if st.get("n_repl", 0) >= 1 or not pep.list_of_performance_metrics:
            return False
        st["n_repl"] = 1
        m = 0.25 * ctx.exprs["dn"] + 0.5 * ctx.exprs["d0"]
        ctx.exprs["metric_replacing"] = m
        pep.list_of_performance_metrics[0] = m
    elif op == "side_condition_step":
        # a primitive step whose side condition is stored on the function (which may have had no constraint of its own so far)
        if st.get("n_side", 0) >= 1:
            return False
        st["n_side"] = 1
        from PEPit.primitive_steps import inexact_gradient_step
        tgt = ctx.funcs.get("F", ctx.funcs["f"])
        xq, dq, fq = inexact_gradient_step(ctx.points["x0"], tgt, 0.5, 0.3, notion="absolute")
        ctx.points["side_x"], ctx.points["side_d"] = xq, dq
        pep.set_performance_metric(dq ** 2 + 0.1 * ctx.exprs["dn"])
    elif op == "adjoint_sample":
        # a new evaluation of the ADJOINT only: the operator's own list of samples does not change
        f = ctx.funcs["f"]
        if type(f).__name__ != "LinearOperator" or st.get("n_adj", 0) >= 1:
            return False
        st["n_adj"] = 1
        from PEPit import Point
        y = Point()
        v = f.T.gradient(y)
        ctx.points["adj_y"], ctx.points["adj_v"] = y, v
        pep.add_constraint(y ** 2 <= 1)
        pep.set_performance_metric(v ** 2)
    elif op == "hand_partition_constraint":
        part = getattr(ctx, "partition", None)
        if part is None or st.get("n_hand", 0) >= 1:
            return False
        st["n_hand"] = 1
        con = (ctx.points["x0"] * ctx.points["xn"] <= 2)
        ctx.constraints["hand_partition"] = con
        part.add_constraint(con)
    elif op == "held_lmi":
        if st["n_held"] >= 1:
            return False
        st["n_held"] += 1
        M = PSDMatrix([[ctx.exprs["dn"] + 1, ctx.exprs["d0"]], [ctx.exprs["d0"], 3]])
        ctx.lmis["lmi_held"] = M
        if solved_flag:
            try:
                M.eval()
            except Exception:
                pass
        pep.add_psd_matrix(M)
    else:
        raise KeyError(op)
    return True


BASE_KIND = {}


def summary(calls, nP, nF):
    """Numbering-free summary of the data sent: multiset of (kind, sense/size, constant, sorted coefficients)."""
    out = []
    for c in calls:
        if c[0] in ("scalar", "untracked"):
            v = R.functional_vec(c[1].expression, nP, nF)
            out.append(("c", c[1].equality_or_inequality, round(float(v[-1]), 9), tuple(sorted(np.round(v[:-1][np.abs(v[:-1]) > 1e-12], 9).tolist()))))
        else:
            M = c[1]
            n = M.shape[0]
            ent = []
            for i in range(n):
                for j in range(n):
                    v = R.functional_vec(M[i, j], nP, nF)
                    ent.append((round(float(v[-1]), 9), tuple(sorted(np.round(v[:-1][np.abs(v[:-1]) > 1e-12], 9).tolist()))))
            out.append(("lmi", n, tuple(sorted(ent))))
    return sorted(out, key=repr)


def do_solve(pep, opts):
    with REC.recording():
        return solving.solve(pep, backend=opts["backend"], mode=opts["mode"], dr=opts["dr"],
                             solver=opts.get("solver", "CLARABEL"), extra=opts.get("extra"))


def run_sequence(mname, seq):
    from PEPit.point import Point
    from PEPit.expression import Expression
    from PEPit.constraint import Constraint
    from PEPit.psd_matrix import PSDMatrix
    probs = []
    ctx = models.build(BASE[mname])
    pep = ctx.pep
    solved_flag = False
    derived = []
    last = None
    deviations = 0
    for op in seq:
        if op in SOLVES:
            last = (op, do_solve(pep, SOLVES[op]))
            r = last[1]
            solved_flag = r["exc"] is None and r["value"] is not None
        elif op in FAULTS:
            deviations += 1
            if deviations > 2:
                return None, "too-many-deviations"
            with faulty_cvxpy("error" if op == "answer_error" else "novalue"):
                last = (op, solving.solve(pep))
            solved_flag = False
        elif op in EDITS:
            if not apply_edit(ctx, op, solved_flag):
                return None, "disabled"
        elif op == "eval_held":
            for name, obj in held_objects(ctx) + derived:
                try:
                    obj.eval()
                except Exception:
                    pass
                if isinstance(obj, (Constraint, PSDMatrix)):
                    try:
                        obj.eval_dual()
                    except Exception:
                        pass
        elif op == "new_derived":
            k = len(derived)
            derived.append(("derived:pt%d" % k, ctx.points["x0"] - 0.5 * ctx.points["xn"]))
            derived.append(("derived:ex%d" % k, ctx.exprs["dn"] - 2 * ctx.exprs["d0"] + 1))
            derived.append(("derived:con%d" % k, ctx.exprs["dn"] <= ctx.exprs["d0"]))
            if solved_flag:       # evaluated once now: a cache would keep this value
                for _, o in derived[-3:]:
                    try:
                        o.eval()
                    except Exception:
                        pass
    if last is None or seq[-1] not in SOLVES and seq[-1] not in FAULTS:
        return None, "no-final-solve"
    op, rA = last
    held = held_objects(ctx) + derived
    nP, nF = Point.counter, Expression.counter

    def accessors_must_raise(tag):
        for name, obj in held:
            for acc in ("eval", "eval_dual"):
                if acc == "eval_dual" and not isinstance(obj, (Constraint, PSDMatrix)):
                    continue
                got = probe(obj, acc)
                if got[0] == "value":
                    probs.append(("%s:number-after-failed-solve:%s" % (tag, acc), "%s.%s() returns a number after a solve without solution" % (name, acc)))
                elif got[1] != "ValueError":
                    probs.append(("%s:wrong-exception:%s:%s" % (tag, acc, got[1]), "%s.%s() raised %s" % (name, acc, got[1])))

    if op in FAULTS:
        if op == "answer_novalue" and (rA["exc"] is not None or rA["value"] is not None):
            probs.append(("fault:novalue-not-reported", "solver answered 'no value', solve returned %r / raised %r" % (rA["value"], rA["exc"])))
        accessors_must_raise("fault")
        return dedupe(probs), "fault"
    # ---- everything about the long-lived model that depends on class-level registries is read NOW, before the fresh
    #      model is built (a new PEP() resets them)
    A = dict(value=rA["value"], exc=rA["exc"], status=rA["status"])
    callsA = getattr(pep.wrapper, "rec_calls", None)
    if callsA is None:
        return dedupe([("resolve:wrapper-not-recorded", "solve did not instantiate the registered wrapper class")]), "norec"
    A["summary"] = summary(callsA, nP, nF)
    A["nP"] = nP
    A["n_rows"] = len(callsA)
    opts = SOLVES[op]
    tol = solving.tolerance(opts["backend"], opts.get("solver", "CLARABEL"))
    if opts.get("extra"):
        return dedupe(probs), "capped-solve-not-judged"      # a deliberately truncated solve is only there to leave options behind
    if rA["exc"] is None and rA["value"] is not None and rA["status"] == "optimal":
        sent_c = [c[1] for c in callsA if c[0] == "scalar"]
        sent_m = [c[1] for c in callsA if c[0] == "lmi"]
        try:
            cert = CERT.certificate(pep, constraints=sent_c, psds=sent_m)
            sc = cert["scale"]
            if cert["resid"] > tol * sc and not (cert["asym_pairs"] > 0 and cert["resid_after_asym"] <= tol * sc):
                probs.append(("resolve:certificate-identity", "certificate of the latest solve: residual %.2e (scale %.2e)" % (cert["resid"], sc)))
            if cert["lam_min"] < -tol * max(1, sc) or cert["psd_min"] < -tol * max(1, sc):
                probs.append(("resolve:certificate-sign", "multiplier sign / PSD violated: %.2e / %.2e" % (cert["lam_min"], cert["psd_min"])))
            if opts["mode"] == "dual" and not cert["resid"] > tol * sc and abs(cert["const"] - rA["value"]) > 1e-9 * max(1, abs(rA["value"])):
                probs.append(("resolve:certificate-value", "returned %.10g, identity constant %.10g" % (rA["value"], cert["const"])))
        except Exception as e:
            probs.append(("resolve:certificate-raised:%s" % type(e).__name__, str(e)[:150]))
        try:
            for k, m in CERT.instance(pep, held=held, tol=tol if not opts["dr"] else 10 * tol):
                probs.append(("resolve:" + k, m))
        except Exception as e:
            probs.append(("resolve:instance-raised:%s" % type(e).__name__, str(e)[:150]))
        # duals of held constraints that are not part of the latest solve are numbers from an earlier solve
        sent_ids = {id(c[1]) for c in callsA}
        for name, obj in held:
            if isinstance(obj, (Constraint, PSDMatrix)) and id(obj) not in sent_ids:
                got = probe(obj, "eval_dual")
                if got[0] == "value":
                    probs.append(("resolve:stale-dual", "%s.eval_dual() returns a number although it was not part of the latest solve" % name))
        # the dual tables of every function are those of the LATEST solve: readable, every constraint cell among what was
        # just sent, every number the multiplier of the constraint at that cell (seeded change C13-m19)
        from PEPit.function import Function as _F
        for f in list(_F.list_of_functions):
            if not f.get_is_leaf() or not getattr(f, "tables_of_constraints", None):
                continue
            fname = f.get_name() or "Function_%s" % f.counter
            try:
                duals = f.get_class_constraints_duals()
            except Exception as e:
                probs.append(("resolve:dual-tables-raise:%s" % type(e).__name__, "get_class_constraints_duals() of %s raised after a solve "
                              "that returned a value: %s" % (fname, str(e)[:120])))
                continue
            for tname, dfc in f.tables_of_constraints.items():
                dfd = duals.get(tname)
                if dfd is None or tuple(dfd.shape) != tuple(dfc.shape):
                    probs.append(("resolve:dual-table-shape", "table %s of %s: constraints %s, duals %s" % (tname, fname, dfc.shape, None if dfd is None else dfd.shape)))
                    continue
                bad = None
                for i in range(dfc.shape[0]):
                    for j in range(dfc.shape[1]):
                        cell = dfc.iloc[i, j]
                        if isinstance(cell, Constraint):
                            if id(cell) not in sent_ids:
                                bad = bad or ("resolve:dual-table-stale", "cell (%d,%d) of table %s of %s holds a constraint that was not part of the latest solve" % (i, j, tname, fname))
                            else:
                                try:
                                    got = float(cell.eval_dual())
                                except Exception as e:
                                    got = type(e).__name__
                                if isinstance(got, str) or not np.isclose(float(dfd.iloc[i, j]), got, rtol=0, atol=1e-12):
                                    bad = bad or ("resolve:dual-table-value", "cell (%d,%d) of table %s of %s holds %r, the constraint's multiplier is %r" % (i, j, tname, fname, dfd.iloc[i, j], got))
                if bad:
                    probs.append(bad)
    elif rA["exc"] is None and rA["value"] is None:
        accessors_must_raise("resolve")
    # ---- freshly built equivalent model
    fresh = models.build(BASE[mname])
    for o in seq:
        if o in EDITS:
            apply_edit(fresh, o, False)
    rB = do_solve(fresh.pep, opts)
    nPB, nFB = Point.counter, Expression.counter
    callsB = getattr(fresh.pep.wrapper, "rec_calls", [])
    for r_ in (rA, rB):
        if r_["exc"] is not None and type(r_["exc"]).__name__ == "SolverError":
            return dedupe(probs), "solver-error"
    if rB["exc"] is not None:
        if rA["exc"] is None:
            probs.append(("resolve:fresh-raises-only", "the fresh model raises %s, the re-solved one does not" % type(rB["exc"]).__name__))
        return dedupe(probs), "both-raise"
    if rA["exc"] is not None:
        probs.append(("resolve:raises:%s" % type(rA["exc"]).__name__, "re-solving raised %s: %s (the freshly built equivalent model solves)"
                      % (type(rA["exc"]).__name__, str(rA["exc"])[:150])))
        return dedupe(probs), "raised"
    # an option given to an earlier solve must not outlive it (not even in another problem object of the same process):
    # the solver that ran must be the one the LAST call asked for ...
    try:
        want = {"CLARABEL": "CLARABEL", "SCS": "SCS", None: "SCS"}[opts.get("solver", "CLARABEL")] if opts["backend"] == "cvxpy" else "MOSEK"
        if rA["exc"] is None and pep.wrapper.solver_name != want:
            probs.append(("resolve:wrong-solver", "the last solve asked for %r and ran %s" % (opts.get("solver", "CLARABEL"), pep.wrapper.solver_name)))
    except Exception:
        pass
    # ... and after a deliberately truncated solve, the reference is computed in a forked PRISTINE process (a leak at
    # process level would contaminate a reference built in this process as well)
    if "solve_scs_capped" in seq[:-1] and rA["exc"] is None:
        ref = _fresh_in_fork(mname, [o for o in seq if o in EDITS], seq[-1])
        # (the status alone is not compared: the one more objective leaf per solve can tip `optimal` into `optimal_inaccurate`)
        if ref is not None and ref["status"] == "optimal" and (rA["value"] is None
                                                               or abs(rA["value"] - ref["value"]) > 5e-2 * max(1.0, abs(ref["value"]))):
            probs.append(("resolve:option-outlived-its-solve", "after an earlier solve capped at 3 iterations the last solve returns %r (%s); "
                          "the same model solved with the same options in a pristine process returns %r (optimal)" % (rA["value"], rA["status"], ref["value"])))
    sB = summary(callsB, nPB, nFB)
    if A.get("nP") is not None and A["nP"] != nPB:
        # (the F vector legitimately gets one fresh objective leaf per solve; nothing creates a leaf POINT per solve)
        probs.append(("resolve:gram-size-differs", "the Gram matrix sent at the last solve is %d x %d, a freshly built equivalent model "
                      "sends %d x %d" % (A["nP"], A["nP"], nPB, nPB)))
    if A["summary"] != sB:
        probs.append(("resolve:data-differs", "the data sent at the last solve (%d items) differ from what a freshly built "
                                              "equivalent model sends (%d items)" % (A["n_rows"], len(callsB))))
    vA, vB = rA["value"], rB["value"]
    if rB["status"] in NO_OPTIMUM or rA["status"] in NO_OPTIMUM:
        if rB["status"] in NO_OPTIMUM and rA["status"] in NO_OPTIMUM and opts["backend"] == "cvxpy" and (vA is not None or vB is not None):
            probs.append(("resolve:number-without-optimum", "solve returned %r / fresh %r for a model without optimum" % (vA, vB)))
        return dedupe(probs), "no-optimum"
    if rA["status"] != "optimal" or rB["status"] != "optimal" or vA is None or vB is None:
        return dedupe(probs), "not-judged:%s/%s" % (rA["status"], rB["status"])
    vtol = 2e-5 if opts.get("solver", "CLARABEL") == "CLARABEL" else 2e-2
    if abs(vA - vB) > (vtol if not opts["dr"] or opts["mode"] == "dual" else max(vtol, 1e-3)) * max(1.0, abs(vB)):
        probs.append(("resolve:value-differs", "re-solved model returns %.8g, freshly built equivalent model %.8g" % (vA, vB)))
    return dedupe(probs), "compared"


def _fresh_in_fork(mname, edits, solve_op):
    """value / status of the model with these edits solved once with solve_op's options, in a forked child"""
    import os, json
    rfd, wfd = os.pipe()
    pid = os.fork()
    if pid == 0:
        out = None
        try:
            os.close(rfd)
            ctx = models.build(BASE[mname])
            for o in edits:
                apply_edit(ctx, o, False)
            r = do_solve(ctx.pep, SOLVES[solve_op])
            out = dict(value=None if r["value"] is None else float(r["value"]), status=r["status"], exc=None if r["exc"] is None else type(r["exc"]).__name__)
        except BaseException as e:  # noqa
            out = dict(value=None, status=None, exc=type(e).__name__)
        finally:
            os.write(wfd, json.dumps(out).encode())
            os._exit(0)
    os.close(wfd)
    data = b""
    while True:
        b = os.read(rfd, 65536)
        if not b:
            break
        data += b
    os.close(rfd)
    os.waitpid(pid, 0)
    try:
        return json.loads(data.decode())
    except Exception:
        return None


def dedupe(probs):
    seen, out = set(), []
    for k, m in probs:
        if k not in seen:
            seen.add(k); out.append((k, m))
    return out


def _depth(tier):
    return 3 if tier == "quick" else 4


def _ops_for(mname):
    ops = [o for o in OPS if not (o in ("new_block", "hand_partition_constraint") and mname != "block") and not (o == "adjoint_sample" and mname != "linop")]
    if mname in ("linop", "qgnone"):
        # the two extra models exist for their own mechanism: a reduced alphabet keeps the exploration affordable
        keep = {"solve", "solve_primal", "solve_trace", "solve_mosek", "answer_novalue", "replace_init", "add_metric", "more_samples",
                "adjoint_sample", "eval_held", "new_derived", "replace_metric"}
        ops = [o for o in ops if o in keep]
    return ops


def shards(tier):
    out = []
    for m in BASE:
        for first in _ops_for(m):
            if tier == "quick":
                out.append(dict(model=m, first=[first], depth=3, quick=True))
            else:
                out.append(dict(model=m, first=[first], depth=1))
                # thorough: every sequence of <= 3 operations on every model; on gd and block also the sequences of 4 with at most
                # one solve / solver answer among the first three operations
                for second in _ops_for(m):
                    out.append(dict(model=m, first=[first, second], depth=4 if m in ("gd", "block") else 3, few_solves=True))
    return out


def run_shard(shard, tier):
    m = shard["model"]
    ops = _ops_for(m)
    finals = [o for o in ops if o in SOLVES or o in FAULTS]
    first = tuple(shard["first"])
    ev = tr = nontriv = 0
    outcomes, viol, samples = {}, [], []
    for depth in range(max(1, len(first)), shard["depth"] + 1):
        for mid in itertools.product(ops, repeat=max(0, depth - len(first) - 1)):
            cands = [first] if depth == len(first) else [first + mid + (f,) for f in finals]
            for seq in cands:
                if seq[-1] not in finals:
                    continue
                if shard.get("few_solves") and len(seq) == 4 and sum(1 for o in seq[:3] if o in SOLVES or o in FAULTS) > 1:
                    continue
                if shard.get("quick") and len(seq) == 3 and (seq[1] in SOLVES or seq[1] in FAULTS):
                    continue      # quick tier: the middle operation of a 3-sequence is an edit / evaluation (solve-solve-solve is thorough)
                probs, label = run_sequence(m, seq)
                if probs is None:
                    continue
                ev += 1
                tr += len(seq)
                nontriv += label == "compared"
                outcomes[label] = outcomes.get(label, 0) + 1
                for k, msg in probs:
                    viol.append(dict(key=k, msg=msg, case=dict(model=m, sequence=list(seq))))
                if not samples and label == "compared" and len(seq) == shard["depth"]:
                    samples.append(dict(model=m, sequence=list(seq), outcome=label))
    return dict(evaluations=ev, states=ev, transitions=tr, nontrivial=int(nontriv), outcomes=outcomes, violations=viol,
                samples=samples, extra={})


def replay(case):
    probs, _ = run_sequence(case["model"], tuple(case["sequence"]))
    return [dict(key=k, msg=m, case=case) for k, m in (probs or [])]


def meta(tier):
    return dict(
        rule="all sequences of <= %d operations (quick tier: <= 3, and in sequences of 3 the middle operation is an edit or an evaluation; thorough tier: all "
             "sequences <= 3 on every model and, on gd / block, the sequences of 4 with at most one solve or solver answer among the first three) ending in a solve (or an injected solver answer) over %s on the base models "
             "%s; after each one: differential comparison with a freshly built equivalent model solved once with the same "
             "options (value, numbering-free multiset of the data sent), certificate and instance of the latest solve over "
             "the recorded sent list, eval() of every held / earlier-evaluated / post-solve-built object on the current "
             "solution, stale duals of constraints no longer sent, accessors after a solve without solution. "
             "non-trivial = compared with a fresh model at optimality." % (_depth(tier), OPS, list(BASE)),
        bounds=dict(depth=_depth(tier), deviations=2),
        exhaustive=True,
        assumptions=["the per-solve fresh objective leaf makes F one entry longer per solve, so the data sent are compared "
                     "numbering-free (sense, constant, sorted coefficient multiset)",
                     "MOSEK-path solves use the stand-in"],
        trusted_base=["mc/refalg.py", "mc/certificate.py", "mc/recording.py", "mc/mosek_standin/mosek/__init__.py"],
    )
