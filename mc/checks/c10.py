"""C10 - shipped examples agree with their published closed-form rates on the whole documented range.

Every shipped example that returns a theoretical value is run on a grid of its documented parameter range (mc.examples_table:
end points, interior points, several iteration counts - not only the single point the test-suite pins): 'tight' examples must
match their closed form to 1e-3 relative, 'upper' examples must not exceed it, 'lower' ones must not fall below.  For every
grid point of a sub-family the value must not move under an equivalent reformulation (redundant LMI, one-block partition
with a decomposed point, duplicated metric) nor when solved through the MOSEK back-end (stand-in)."""
import contextlib
import importlib
import io

from mc import examples_table as T
from mc import solving

PROPERTY = "C10"
LEVEL = "exploration"
VARIANTS = ["plain", "redundant_lmi", "one_block_partition", "duplicate_metric", "mosek", "constraint_as_function_lmi", "rotate_samples"]
CHUNK = 5


STATUSES = []


@contextlib.contextmanager
def reformulated(variant):
    """Apply an equivalent reformulation to whatever problem the example builds, just before it is solved; record the
    solver status of every solve the example performs."""
    from PEPit.pep import PEP
    orig = PEP.solve

    def solve(self, *a, **k):
        from PEPit.point import Point
        p0 = Point.list_of_leaf_points[0]
        if variant == "redundant_lmi":
            self.add_psd_matrix([[p0 ** 2 + 1, 0], [0, 2]])
        elif variant == "one_block_partition":
            part = self.declare_block_partition(d=1)
            part.get_block(p0, 0)
            part.get_block(p0 - Point.list_of_leaf_points[-1], 0)
        elif variant == "duplicate_metric":
            for m in list(self.list_of_performance_metrics):
                self.set_performance_metric(m)
        elif variant == "constraint_as_function_lmi":
            # every inequality  e <= 0  of the problem is restated as the 1x1 LMI  [-e] >= 0  attached to the first function
            from PEPit.function import Function
            fs = [f_ for f_ in Function.list_of_functions if f_.get_is_leaf()]
            if fs:
                for c_ in list(self.list_of_constraints):
                    if c_.equality_or_inequality == "inequality":
                        self.list_of_constraints.remove(c_)
                        fs[0].add_psd_matrix([[-1 * c_.expression]])
        elif variant == "rotate_samples":
            # the same samples recorded in another order describe the same class constraints
            from PEPit.function import Function
            for f_ in Function.list_of_functions:
                if len(f_.list_of_points) > 1:
                    f_.list_of_points = f_.list_of_points[1:] + f_.list_of_points[:1]
        out = orig(self, *a, **k)
        try:
            w = self.wrapper
            STATUSES.append(w.prob.status if getattr(w, "prob", None) is not None and hasattr(w.prob, "status") else w.task.sol.get("status"))
        except Exception:
            STATUSES.append("unknown")
        return out
    PEP.solve = solve
    try:
        yield
    finally:
        PEP.solve = orig


def run_example(name, kw, variant):
    e = T.ENTRIES[name]
    fn = getattr(importlib.import_module(e["module"]), e["func"])
    del STATUSES[:]
    with contextlib.redirect_stdout(io.StringIO()), reformulated(variant):
        if variant == "mosek":
            with solving.standin():
                out = fn(verbose=0, wrapper="mosek", **kw)
        else:
            out = fn(verbose=0, solver="CLARABEL", **kw)
    return out[0], out[1], all(st == "optimal" for st in STATUSES)


def judge(name, kw, variants):
    e = T.ENTRIES[name]
    probs = []
    try:
        wc, th, accurate = run_example(name, kw, "plain")
    except Exception as ex:
        if type(ex).__name__ == "SolverError":
            return [], "solver-error"
        return [("example-raised:%s:%s" % (name, type(ex).__name__), "%s(%s) raised %s: %s" % (e["func"], kw, type(ex).__name__, str(ex)[:150]))], "raised"
    if wc is None:
        return [("no-value:%s" % name, "%s(%s) returned no value inside its documented range" % (e["func"], kw))], "none"
    doc = T.DOC[name](kw) if name in getattr(T, "DOC", {}) else None
    if doc is not None and th is not None and abs(th - doc) > 1e-9 * max(1.0, abs(doc)):
        probs.append(("reference-value-is-not-the-documented-formula:%s" % name,
                      "%s(%s) returns the reference value %.10g, the closed form of its documentation gives %.10g" % (e["func"], kw, th, doc)))
        th = doc
    if th is not None:
        tol = max(e["abs_tol"] if e["abs_tol"] else 1e-3 * abs(th), e.get("floor", 2e-6))
        kind = e["kind"]
        if kind == "tight" and abs(wc - th) > tol:
            probs.append(("not-tight:%s" % name, "%s(%s) = %.8g, documented tight rate %.8g (relative gap %.2e)" % (e["func"], kw, wc, th, abs(wc - th) / max(abs(th), 1e-12))))
        elif kind == "upper" and wc > th * (1 + 1e-3) + e.get("floor", 2e-6):
            probs.append(("exceeds-upper-bound:%s" % name, "%s(%s) = %.8g exceeds the documented upper bound %.8g" % (e["func"], kw, wc, th)))
        elif kind == "lower" and th > wc * (1 + 1e-3) + e.get("floor", 2e-6):
            probs.append(("below-lower-bound:%s" % name, "%s(%s) = %.8g is below the documented lower bound %.8g" % (e["func"], kw, wc, th)))
    for v in variants:
        try:
            wc2, _, accurate2 = run_example(name, kw, v)
        except Exception as ex:
            if type(ex).__name__ == "SolverError":
                continue
            probs.append(("reformulation-raised:%s:%s" % (v, type(ex).__name__), "%s(%s) under '%s' raised %s: %s" % (e["func"], kw, v, type(ex).__name__, str(ex)[:120])))
            continue
        if not (accurate and accurate2):
            continue          # the solver itself flags one of the two solves as inaccurate: counted, not judged
        if wc2 is None or abs(wc2 - wc) > max(2e-5 * max(1.0, abs(wc)), 5 * e.get("floor", 2e-6)):
            probs.append(("value-moved:%s" % v, "%s(%s) = %.8g, but %r under the equivalent formulation '%s'" % (e["func"], kw, wc, wc2, v)))
    return probs, "agrees" if not probs else "disagrees"


def cases(tier):
    out = []
    for name, e in T.ENTRIES.items():
        for i, kw in enumerate(T.grid(name, tier)):
            if tier == "quick":
                variants = VARIANTS[1:] if i == 0 else ([VARIANTS[1 + (i % 6)]] if i % 2 == 0 else [])
            else:
                variants = VARIANTS[1:]
            out.append((name, kw, variants))
    return out


def shards(tier):
    n = len(cases(tier))
    return [dict(lo=lo, hi=min(n, lo + CHUNK)) for lo in range(0, n, CHUNK)]


def run_shard(shard, tier):
    ev = nontriv = runs = 0
    outcomes, viol, samples = {}, [], []
    earlier = []        # the calls of the SAME example made before in this process: a value must not depend on them either
    for name, kw, variants in cases(tier)[shard["lo"]:shard["hi"]]:
        probs, label = judge(name, kw, variants)
        ev += 1
        runs += 1 + len(variants)
        nontriv += label == "agrees"
        outcomes[label] = outcomes.get(label, 0) + 1
        for k, m in probs:
            viol.append(dict(key=k, msg=m, case=dict(example=name, kwargs=kw, variants=variants,
                                                     after=[kw_ for n_, kw_ in earlier if n_ == name])))
        earlier.append((name, kw))
        if not samples:
            samples.append(dict(example=name, kwargs=kw, variants=variants, outcome=label))
    return dict(evaluations=ev, states=ev, transitions=runs, nontrivial=int(nontriv), outcomes=outcomes, violations=viol, samples=samples,
                extra={"example_runs": runs})


def replay(case):
    for kw_ in case.get("after", []):
        try:
            run_example(case["example"], kw_, "plain")      # the same calls of the example that preceded it in the process
        except Exception:
            pass
    probs, _ = judge(case["example"], case["kwargs"], case["variants"])
    return [dict(key=k, msg=m, case=case) for k, m in probs]


def meta(tier):
    return dict(
        rule="%d shipped examples with a documented closed form x parameter grids inside the documented range (%d grid points: "
             "several values of every parameter and several iteration counts); tight: |value - closed form| <= 1e-3 relative "
             "(absolute 5e-5 for the potential-function / adaptive examples, as in the test-suite), upper / lower: one-sided; "
             "plus value invariance under {redundant LMI, one-block partition with decomposed points, duplicated metric, MOSEK "
             "stand-in back-end, problem inequalities restated as 1x1 function-level LMIs, samples recorded in rotated order} on %s. evaluations = grid points; transitions = example runs."
             % (len(T.ENTRIES), sum(len(e["grid"]) for e in T.ENTRIES.values()), "a rotating sub-family" if tier == "quick" else "every grid point"),
        bounds=dict(examples=len(T.ENTRIES), grid_points=sum(len(e["grid"]) for e in T.ENTRIES.values())),
        exhaustive=True,
        assumptions=["finite grid of a continuous range; examples that return no theoretical value (reference numbers only) are "
                     "covered by the reformulation clause of other entries only",
                     "CLARABEL accuracy 1e-6; the closed forms are the ones the example files themselves return"],
        trusted_base=["mc/examples_table.py (documented ranges)", "mc/mosek_standin/mosek/__init__.py"],
    )
