"""C17 - dual tables report each multiplier at the pair of points it belongs to.

Every class x declaration pattern (stationary point first / last / twice / never, for the classes that then record one
themselves) x parameter tuple x {1, 2 steps} x {named, unnamed points and
function} x {plain, with a composite partner, with a second function} of the grammar is solved once; for every leaf
function the tables returned by get_class_constraints_duals() are compared cell by cell with a reference built from the
documented conditions instantiated by sample identity (mc.catalog.conditions): cell (i, j) must hold the multiplier of the
constraint whose functional is the condition of the ordered pair (row sample i, column sample j) - 0 where there is none -,
tables must have one row / column per recorded sample, and the name of every class constraint must spell its function,
condition and pair."""
import numpy as np

from mc import models, solving
from mc import refalg as R
from mc.catalog import conditions as COND
from mc.checks.c04 import nvec

PROPERTY = "C17"
LEVEL = "model_checking"
CHUNK = 6


def cases(tier):
    out = []
    for cls in models.CLASS_NAMES:
        info = models.CLASSES[cls]
        pats = models.PATTERNS[info["kind"]]
        for pat in pats:
            for n in (1, 2):
                for named in (False, True):
                    spec = dict(cls=cls, par=0, pattern=pat, metric=info["metrics"][0], init="dist", n=n)
                    if named:
                        spec.update(named=True, fname="func")
                    out.append(spec)
        out.append(dict(cls=cls, par=0, pattern="sf", metric=info["metrics"][0], init="dist", n=1, extras=["second_function", "dup_eval"]))
        for par in range(1, len(info["params"])):
            # the other parameter tuples (finite M / D, other constants): options that switch conditions on
            out.append(dict(cls=cls, par=par, pattern="sl", metric=info["metrics"][-1], init="dist", n=2))
            if tier != "quick":
                out.append(dict(cls=cls, par=par, pattern="sf", metric=info["metrics"][0], init="dist", n=1, named=True, fname="func"))
        if cls in ("ConvexQGFunction", "RsiEbFunction"):
            # the user never declares a stationary point: the class records one itself while generating its constraints
            for n in (1, 2):
                out.append(dict(cls=cls, par=0, pattern="none", metric="negdist", init="dist", n=n))
    for cls in sorted(models.SMOOTH | models.NONSMOOTH):
        out.append(dict(cls=cls, par=0, pattern="sf", comp="sum", step="prox", metric="dist", init="dist", n=1))
        out.append(dict(cls=cls, par=0, pattern="sl", comp="weighted", step="prox", metric="dist", init="dist", n=2, named=True))
    for cls in ("ConvexFunction", "ConvexLipschitzFunction", "MonotoneOperator", "ConvexSupportFunction"):
        # non-differentiable classes evaluated twice at the same (named) point: two samples with the same label
        out.append(dict(cls=cls, par=0, pattern="sf", metric="dist", init="dist", n=1, extras=["dup_eval"], named=True))
        out.append(dict(cls=cls, par=0, pattern="sf", metric="dist", init="dist", n=1, extras=["dup_same"], named=True))
    for cls in models.CLASS_NAMES:
        if models.CLASSES[cls]["kind"] in ("f", "o"):
            out.append(dict(cls=cls, par=0, pattern="sf", metric=models.CLASSES[cls]["metrics"][0], init="dist", n=1, extras=["same_name"], named=True))
    for cls in ("SmoothStronglyConvexFunction", "ConvexFunction", "LipschitzOperator"):
        # functions / operators with exactly one recorded sample next to the main function (their tables are 1 x 1, or N x 0)
        out.append(dict(cls=cls, par=0, pattern="sf", metric=models.CLASSES[cls]["metrics"][0], init="dist", n=1, extras=["one_sample_functions"]))
    for cls in ("SmoothStronglyConvexFunction", "ConvexFunction", "LipschitzOperator", "ConvexIndicatorFunction", "LinearOperator"):
        # the tables after a solve that was asked for the primal value, and after a solve with a heuristic
        for mode, dr in (("primal", None), ("dual", "trace"), ("primal", "logdet1")):
            out.append(dict(cls=cls, par=0, pattern="sf", metric=models.CLASSES[cls]["metrics"][0], init="dist", n=2, c17_mode=mode, c17_dr=dr))
    return out


def label_of(triplet, index):
    return triplet[0].get_name() or "Point_%d" % index


def check_function(fname, f, cls, par, nP, nF):
    from PEPit.constraint import Constraint
    probs = []
    fid = f.get_name() or "Function_%s" % f.counter
    try:
        duals = f.get_class_constraints_duals()
    except Exception as e:
        return [("tables-raise:%s:%s" % (cls, type(e).__name__), "get_class_constraints_duals() raised %s: %s" % (type(e).__name__, str(e)[:120]))]
    tabc = f.tables_of_constraints
    class_cons = list(f.list_of_class_constraints)
    if class_cons and not tabc:
        named = sum(1 for c in class_cons if c.get_name())
        return [("no-table:%s:%s" % (cls, "all-unnamed" if named == 0 else "some-named"),
                 "%d class constraints were sent for %s but it exposes no dual table (and %d of them have a name)" % (len(class_cons), fid, named))]
    if set(duals) != set(tabc):
        probs.append(("tables-differ:%s" % cls, "dual tables %s, constraint tables %s" % (sorted(duals), sorted(tabc))))
    S = list(f.list_of_points)
    ST = [t for t in S if t[1].decomposition_dict == dict()]
    try:
        ref_sc, _ = COND.reference(cls, par, f)
    except Exception as e:
        return [("reference-raised:%s" % cls, str(e)[:100])]
    refs = {}
    for sense, e, lab, at in ref_sc:
        nv = nvec(R.functional_vec(e, nP, nF), sense)
        if at is None:
            continue
        samples, sym = at
        key = tuple(id(t) for t in samples)
        refs.setdefault(key, set()).add(nv)
        if sym and len(samples) == 2:
            refs.setdefault(key[::-1], set()).add(nv)
    seen_cons = {}
    for name, dfc in tabc.items():
        dfd = duals.get(name)
        if dfd is None:
            continue
        if tuple(dfd.shape) != tuple(dfc.shape) or list(dfd.columns) != list(dfc.columns) or list(dfd.index) != list(dfc.index):
            probs.append(("table-shape:%s" % cls, "dual table %s has shape/labels %s %s, constraint table %s %s"
                          % (name, dfd.shape, list(dfd.columns), dfc.shape, list(dfc.columns))))
            continue
        nr, nc = dfc.shape
        # one row / column per recorded sample (LinearOperator: columns are the samples of the transpose)
        if cls == "LinearOperator" and name == "adjoint_linearity":
            TS = list(f.T.list_of_points)
            if (nr, nc) != (len(S), len(TS)):
                probs.append(("table-shape:%s" % cls, "table %s has shape %s for %d x %d samples" % (name, (nr, nc), len(S), len(TS))))
                continue
            rows_, cols_ = S, TS
        else:
            rows_ = cols_ = None
        if cols_ is None and nc != len(S):
            probs.append(("table-columns:%s" % cls, "table %s has %d columns for %d recorded samples" % (name, nc, len(S))))
            continue
        cols = S if cols_ is None else cols_
        one_list = rows_ is None and nr == 1 and all(isinstance(v, (int, np.integer)) for v in dfc.index)
        if rows_ is not None:
            rows = rows_
        elif one_list:
            rows = None       # one-list table (single unlabeled row)
        elif nr == len(ST) and name in ("qg_convexity", "rsi", "eb"):
            rows = ST         # the documented stationary-samples x all-samples conditions
        elif nr == len(S):
            rows = S
        elif nr == len(ST):
            rows = ST
        else:
            probs.append(("table-rows:%s" % cls, "table %s has %d rows for %d samples / %d stationary samples" % (name, nr, len(S), len(ST))))
            continue
        if list(dfc.columns) != [label_of(t, k) for k, t in enumerate(cols)]:
            probs.append(("table-labels:%s" % cls, "column labels %s of table %s are not the sample labels %s"
                          % (list(dfc.columns), name, [label_of(t, k) for k, t in enumerate(cols)])))
        if rows is not None and list(dfc.index) != [label_of(t, k) for k, t in enumerate(rows)]:
            probs.append(("table-labels:%s" % cls, "row labels %s of table %s are not the sample labels" % (list(dfc.index), name)))
        for i in range(nr):
            for j in range(nc):
                cell = dfc.iloc[i, j]
                dv = dfd.iloc[i, j]
                if isinstance(cell, Constraint):
                    seen_cons[id(cell)] = seen_cons.get(id(cell), 0) + 1
                    try:
                        lam = cell.eval_dual()
                    except Exception as e:
                        probs.append(("cell-dual-raises:%s" % cls, "constraint %s in table %s has no dual value (%s)" % (cell.get_name(), name, type(e).__name__)))
                        continue
                    if not np.isclose(float(dv), float(lam), rtol=0, atol=1e-12):
                        probs.append(("cell-value:%s" % cls, "table %s cell (%d,%d) holds %r, the multiplier of the constraint at that cell is %r" % (name, i, j, dv, lam)))
                    key = (id(rows[i]), id(cols[j])) if rows is not None else (id(cols[j]),)
                    nv = nvec(R.functional_vec(cell.expression, nP, nF), cell.equality_or_inequality)
                    if nv and nv not in refs.get(key, set()):
                        probs.append(("cell-position:%s" % cls, "the constraint at cell (%d,%d) of table %s (%s) is not the documented "
                                      "condition of that pair of samples" % (i, j, name, cell.get_name())))
                    rl = label_of(rows[i], i) if rows is not None else None
                    cl = label_of(cols[j], j)
                    want = "IC_%s_%s(%s)" % (fid, name, cl) if rows is None else "IC_%s_%s(%s, %s)" % (fid, name, rl, cl)
                    if cell.get_name() != want:
                        probs.append(("constraint-name:%s" % cls, "constraint at cell (%d,%d) of table %s is named %r, expected %r" % (i, j, name, cell.get_name(), want)))
                else:
                    if not (isinstance(cell, (int, float, np.integer, np.floating)) and cell == 0):
                        probs.append(("cell-kind:%s" % cls, "cell (%d,%d) of table %s holds %r" % (i, j, name, cell)))
                    elif not (dv == 0):
                        probs.append(("cell-value:%s" % cls, "table %s cell (%d,%d) holds %r where no constraint exists" % (name, i, j, dv)))
    for c in class_cons:
        if seen_cons.get(id(c), 0) != 1:
            probs.append(("constraint-not-in-table:%s" % cls, "class constraint %s appears %d times in the tables" % (c.get_name(), seen_cons.get(id(c), 0))))
            break
    return probs


def judge(spec):
    from PEPit.point import Point
    from PEPit.expression import Expression
    from PEPit.function import Function
    spec = dict(spec)
    mode, dr = spec.pop("c17_mode", "dual"), spec.pop("c17_dr", None)
    ctx = models.build(spec)
    r = solving.solve(ctx.pep, mode=mode, dr=dr)
    if r["exc"] is not None or r["value"] is None or r["status"] != "optimal":
        return [], "not-solved"
    nP, nF = Point.counter, Expression.counter
    probs = []
    n = 0
    for f in Function.list_of_functions:
        if not f.get_is_leaf() or type(f) is Function:
            continue
        cls = type(f).__name__
        if cls not in models.CLASSES:
            continue
        # parameters as declared on the object
        par = {k: getattr(f, k) for k in ("mu", "L", "M", "D", "beta", "rho") if hasattr(f, k)}
        for k, m in check_function("f", f, cls, par, nP, nF):
            probs.append((k, m))
        n += 1
    # ---- second round: one more sample on the main function, solve again, read the tables again
    try:
        main = ctx.funcs["f"]
        if spec.get("n") == 2 and not spec.get("named"):
            # the user names the function and a point AFTER the first solve: the second solve's names and labels follow
            main.set_name("renamed_f")
            ctx.points["x0"].set_name("renamed_x0")
        extra_pt = 0.5 * ctx.points["x0"] + 0.5 * ctx.points["xn"]
        if spec["cls"] == "LinearOperator":
            main.T.oracle(extra_pt)
        else:
            main.oracle(extra_pt)
        r2 = solving.solve(ctx.pep, mode=mode, dr=dr)
        if r2["exc"] is None and r2["value"] is not None and r2["status"] == "optimal":
            nP, nF = Point.counter, Expression.counter
            for f in Function.list_of_functions:
                if not f.get_is_leaf() or type(f) is Function or type(f).__name__ not in models.CLASSES:
                    continue
                par = {k: getattr(f, k) for k in ("mu", "L", "M", "D", "beta", "rho") if hasattr(f, k)}
                for k, m in check_function("f", f, type(f).__name__, par, nP, nF):
                    probs.append((k + ":second-solve", m))
            n += 100
            # ---- third round: solve once more with NOTHING changed (same samples, same table layout): the tables must be
            #      those of this last solve (seeded change C13-m19: a table of unchanged layout kept from the previous solve)
            r3 = solving.solve(ctx.pep, mode=mode, dr=dr)
            if r3["exc"] is None and r3["value"] is not None and r3["status"] == "optimal":
                nP, nF = Point.counter, Expression.counter
                for f in Function.list_of_functions:
                    if not f.get_is_leaf() or type(f) is Function or type(f).__name__ not in models.CLASSES:
                        continue
                    par = {k: getattr(f, k) for k in ("mu", "L", "M", "D", "beta", "rho") if hasattr(f, k)}
                    for k, m in check_function("f", f, type(f).__name__, par, nP, nF):
                        probs.append((k + ":third-solve-unchanged", m))
                n += 1000
    except Exception as e:
        probs.append(("second-solve-raised:%s" % type(e).__name__, str(e)[:150]))
    # ---- the set of tables of a function does not depend on how many samples it has (>= 1): it is compared with the set
    #      exposed by a second object of the same class and parameters sampled three times (built last: it creates leaves)
    try:
        for f in list(Function.list_of_functions):
            if not f.get_is_leaf() or type(f) is Function or type(f).__name__ not in models.CLASSES or not f.list_of_points:
                continue
            if getattr(f, "_c17_reference", False):
                continue
            cls = type(f).__name__
            kw = {k: getattr(f, k) for k in ("mu", "L", "M", "D", "beta", "rho") if hasattr(f, k)}
            if hasattr(f, "partition"):
                kw["partition"] = f.partition
            try:
                g = type(f)(**kw)
            except Exception:
                continue
            g._c17_reference = True
            for _ in range(3):
                g.oracle(Point())
            if cls == "LinearOperator":
                g.T.oracle(Point())
                g.T._c17_reference = True
            g.set_class_constraints()
            want, got = set(g.tables_of_constraints), set(f.tables_of_constraints)
            if cls == "LinearOperator" and f.counter is None:
                continue      # the transposed twin of an operator: its tables are the operator's
            if want - got:
                probs.append(("tables-missing:%s" % cls, "%s with %d sample(s) exposes the tables %s, the same class with three samples "
                              "exposes %s" % (cls, len(f.list_of_points), sorted(got), sorted(want))))
    except Exception as e:
        probs.append(("table-set-comparison-raised:%s" % type(e).__name__, str(e)[:150]))
    seen, out = set(), []
    for k, m in probs:
        if k not in seen:
            seen.add(k); out.append((k, m))
    return out, "checked%d" % n


def shards(tier):
    n = len(cases(tier))
    return [dict(lo=lo, hi=min(n, lo + CHUNK)) for lo in range(0, n, CHUNK)]


def run_shard(shard, tier):
    ev = nontriv = 0
    outcomes, viol, samples = {}, [], []
    for spec in cases(tier)[shard["lo"]:shard["hi"]]:
        try:
            probs, label = judge(spec)
        except Exception as e:
            probs, label = [("harness:%s" % type(e).__name__, str(e)[:200])], "harness"
        ev += 1
        nontriv += label.startswith("checked")
        outcomes[label] = outcomes.get(label, 0) + 1
        for k, m in probs:
            viol.append(dict(key=k, msg=m, case=dict(spec=spec)))
        if not samples:
            samples.append(dict(spec=spec, outcome=label))
    return dict(evaluations=ev, states=ev, transitions=ev, nontrivial=int(nontriv), outcomes=outcomes, violations=viol,
                samples=samples, extra={})


def replay(case):
    probs, _ = judge(case["spec"])
    return [dict(key=k, msg=m, case=case) for k, m in probs]


def meta(tier):
    return dict(
        rule="every class x declaration pattern x {1,2} steps x {named, unnamed} (+ a second function, a duplicate evaluation, "
             "composite partners, two samples with the same label) of the grammar, solved once; per leaf function: tables exist, "
             "one row / column per recorded sample with the sample labels, cell (i,j) of the dual table = multiplier of the "
             "constraint at cell (i,j) of the constraint table = documented condition of the samples (row i, column j) by "
             "identity, 0 elsewhere, every class constraint in exactly one cell, constraint names = IC_<function>_<condition>"
             "(<row label>, <column label>). states = solved models.",
        bounds=dict(cases=len(cases(tier))),
        exhaustive=True,
        assumptions=["reference conditions: mc/catalog/conditions.py"],
        trusted_base=["mc/catalog/conditions.py", "mc/refalg.py"],
    )
