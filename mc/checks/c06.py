"""C06 - the point / expression algebra is a faithful vector-space and inner-product calculus.

Bounded exhaustive enumeration of *all* typed expression trees with <= N operator nodes over the leaves
{p0,p1,p2,e0,e1}, a scalar alphabet and every operator overload of the DSL.  Every tree is executed on the real
library and in the reference algebra (mc.refalg, exact rationals); the canonical forms must coincide, which is
"same value under every assignment of the leaves".  After every single operator application the operands are compared
with their snapshot (no mutation), and every ill-typed operand pair at the root must raise.
"""
import itertools
import warnings
from fractions import Fraction

import numpy as np

from mc import refalg as R

PROPERTY = "C06"
LEVEL = "model_checking"

SCALARS = {"0": 0, "1": 1, "-1": -1, "2": 2, "0.5": 0.5, "-3": -3, "0.1": 0.1, "np2": np.float64(2.0),
           "2^-40": 2.0 ** -40, "-2.0": -2.0}
SC_FULL = ["0", "1", "-1", "2", "0.5", "-3", "0.1", "np2", "2^-40"]
SC_RED = ["0", "-1", "2", "0.5"]

P_LEAVES = ["p0", "p1", "p2"]
E_LEAVES = ["e0", "e1"]

# op name -> (result type, operand kinds)
OPS = {
    "padd": ("P", "PP"), "psub": ("P", "PP"), "pneg": ("P", "P"), "psmul": ("P", "sP"), "pmuls": ("P", "Ps"),
    "pdiv": ("P", "Pd"),
    "dot": ("E", "PP"), "sq": ("E", "P"),
    "eadd": ("E", "EE"), "esub": ("E", "EE"), "eneg": ("E", "E"), "esmul": ("E", "sE"), "emuls": ("E", "Es"),
    "ediv": ("E", "Ed"), "eadds": ("E", "Es"), "esadd": ("E", "sE"), "esubs": ("E", "Es"), "essub": ("E", "sE"),
    "le": ("C", "EE"), "ge": ("C", "EE"), "eq": ("C", "EE"), "lt": ("C", "EE"), "gt": ("C", "EE"),
    "les": ("C", "Es"), "ges": ("C", "Es"), "eqs": ("C", "Es"), "lts": ("C", "Es"), "gts": ("C", "Es"),
    "sle": ("C", "sE"), "sge": ("C", "sE"), "seq": ("C", "sE"),
    # augmented assignments: `x = a; x += b` must denote a + b and leave the object a (which other holders still reference) alone
    "piadd": ("P", "PP"), "pisub": ("P", "PP"), "pimuls": ("P", "Ps"), "pidiv": ("P", "Pd"),
    "eiadd": ("E", "EE"), "eisub": ("E", "EE"), "eiadds": ("E", "Es"), "eimuls": ("E", "Es"), "eidiv": ("E", "Ed"),
}
OP_ORDER = list(OPS)
INPLACE = {"piadd": "padd", "pisub": "psub", "pimuls": "pmuls", "pidiv": "pdiv",
           "eiadd": "eadd", "eisub": "esub", "eiadds": "eadds", "eimuls": "emuls", "eidiv": "ediv"}


def real_apply(op, a, b):
    """The real DSL operation (b is None for unary operators)."""
    if op in INPLACE:
        x = a
        base = INPLACE[op]
        if base in ("padd", "eadd", "eadds"):
            x += b
        elif base in ("psub", "esub"):
            x -= b
        elif base in ("pmuls", "emuls"):
            x *= b
        else:
            x /= b
        return x
    if op == "padd" or op == "eadd" or op == "eadds": return a + b
    if op == "esadd": return a + b            # a is the scalar: s + e
    if op == "psub" or op == "esub" or op == "esubs": return a - b
    if op == "essub": return a - b            # s - e
    if op == "pneg" or op == "eneg": return -a
    if op in ("psmul", "esmul"): return a * b  # s * x
    if op in ("pmuls", "emuls"): return a * b  # x * s
    if op in ("pdiv", "ediv"): return a / b
    if op == "dot": return a * b
    if op == "sq": return a ** 2
    if op in ("le", "les", "sle"): return a <= b
    if op in ("ge", "ges", "sge"): return a >= b
    if op in ("eq", "eqs", "seq"): return a == b
    if op in ("lt", "lts"): return a < b
    if op in ("gt", "gts"): return a > b
    raise KeyError(op)


def _sc(name):
    return Fraction(float(SCALARS[name]))


def ref_apply(op, ra, rb):
    """The same operation in the reference algebra; scalars are given by name.  For comparisons returns
    (sense, canonical form that must be <= 0 / == 0)."""
    if op in ("padd", "eadd"): return R.add(ra, rb)
    if op in ("psub", "esub"): return R.sub(ra, rb)
    if op in ("pneg", "eneg"): return R.scale(-1, ra)
    if op in ("psmul", "esmul"): return R.scale(_sc(ra), rb)
    if op in ("pmuls", "emuls"): return R.scale(_sc(rb), ra)
    if op in ("pdiv", "ediv"): return R.scale(Fraction(1) / _sc(rb), ra)
    if op == "dot": return R.inner(ra, rb)
    if op == "sq": return R.inner(ra, ra)
    if op == "eadds": return R.add(ra, R.const(_sc(rb)))
    if op == "esadd": return R.add(R.const(_sc(ra)), rb)
    if op == "esubs": return R.sub(ra, R.const(_sc(rb)))
    if op == "essub": return R.sub(R.const(_sc(ra)), rb)
    if op in ("le", "lt"): return ("inequality", R.sub(ra, rb))
    if op in ("ge", "gt"): return ("inequality", R.sub(rb, ra))
    if op == "eq": return ("equality", R.sub(ra, rb))
    if op in ("les", "lts"): return ("inequality", R.sub(ra, R.const(_sc(rb))))
    if op in ("ges", "gts"): return ("inequality", R.sub(R.const(_sc(rb)), ra))
    if op == "eqs": return ("equality", R.sub(ra, R.const(_sc(rb))))
    if op == "sle": return ("inequality", R.sub(R.const(_sc(ra)), rb))      # s <= e
    if op == "sge": return ("inequality", R.sub(rb, R.const(_sc(ra))))      # s >= e
    if op == "seq": return ("equality", R.sub(R.const(_sc(ra)), rb))
    raise KeyError(op)


class Node(object):
    """obj: the real object; ref: its exact reference value; err: rigorous bound on the absolute float rounding
    error of any coefficient of obj (running error analysis, see err_bound); amax: bound on |coefficients|."""
    __slots__ = ("obj", "ref", "desc", "err", "amax", "snap")

    def __init__(self, obj, ref, desc, err, amax):
        self.obj, self.ref, self.desc, self.err, self.amax = obj, ref, desc, err, amax
        self.snap = snapshot(obj)


U = 2.0 ** -52


def raw_max(obj):
    vals = [abs(float(v)) for v in obj.decomposition_dict.values()]
    return max(vals) if vals else 0.0


def err_bound(op, operands, kinds, res_amax):
    """Running bound on the absolute rounding error of each raw coefficient of the result of one DSL operation
    executed in IEEE double arithmetic, given bounds (err, amax) for the operands.  Scalars are exact inputs."""
    vals = []
    for k, o in zip(kinds, operands):
        vals.append(abs(float(SCALARS[o])) if k in "sd" else (o.err, o.amax))
    if op in ("padd", "psub", "eadd", "esub"):
        e = vals[0][0] + vals[1][0]
    elif op in ("pneg", "eneg"):
        e = vals[0][0]
    elif op in ("psmul", "esmul"):
        e = vals[0] * vals[1][0]
    elif op in ("pmuls", "emuls"):
        e = vals[1] * vals[0][0]
    elif op in ("pdiv", "ediv"):
        inv = 1.0 / vals[1]
        e = inv * (1 + 2 * U) * vals[0][0] + 2 * U * inv * vals[0][1]
    elif op in ("dot", "sq"):
        a, b = vals[0], (vals[1] if len(vals) > 1 else vals[0])
        e = a[1] * b[0] + b[1] * a[0] + a[0] * b[0]
    elif op in ("eadds", "esubs", "les", "ges", "eqs", "lts", "gts"):
        e = vals[0][0]
    elif op in ("esadd", "essub", "sle", "sge", "seq"):
        e = vals[1][0]
    else:   # comparisons of two expressions: a - b or (-a) - (-b)
        e = vals[0][0] + vals[1][0]
    return (e + 2 * U * res_amax) * (1 + 8 * U)


def snapshot(obj):
    return (tuple((id(k) if not isinstance(k, tuple) else (id(k[0]), id(k[1])), type(v), v)
                  for k, v in obj.decomposition_dict.items()),
            obj._value, obj.name, obj._is_leaf, obj.counter)


class Ctx(object):
    """A fresh PEP with the five leaves."""

    def __init__(self):
        from PEPit import PEP, Point, Expression
        self.Point, self.Expression = Point, Expression
        self.pep = PEP()
        self.leaves = {}
        for n in P_LEAVES:
            self.leaves[n] = Point()
        for n in E_LEAVES:
            self.leaves[n] = Expression()
        self.pkey = {id(v): k for k, v in self.leaves.items()}
        self.registry = self.registry_state()

    def registry_state(self):
        return (self.Point.counter, len(self.Point.list_of_leaf_points), self.Expression.counter,
                len(self.Expression.list_of_leaf_expressions))

    def keyfn(self, leaf):
        return self.pkey[id(leaf)]

    def canon(self, obj):
        if isinstance(obj, self.Point):
            return R.of_point(obj, keyfn=self.keyfn)
        return R.of_expression(obj, keyfn=self.keyfn, ekeyfn=self.keyfn)

    def leaf_node(self, name):
        obj = self.leaves[name]
        ref = {name: Fraction(1)} if name in P_LEAVES else {('F', name): Fraction(1)}
        return Node(obj, ref, ("leaf", name), 0.0, 1.0)


def compare(ctx, op, res, ref, tol):
    """None if the real result denotes the reference value, else a message."""
    from PEPit.constraint import Constraint
    kind = OPS[op][0]
    if kind == "C":
        if not isinstance(res, Constraint):
            return "comparison returned %s instead of a Constraint" % type(res).__name__
        sense, rexpr = ref
        if res.equality_or_inequality != sense:
            return "sense %r, written %r" % (res.equality_or_inequality, sense)
        got = ctx.canon(res.expression)
        if _same(got, rexpr, tol):
            return None
        if sense == "equality" and _same(got, R.scale(-1, rexpr), tol):
            return None
        return "constraint expression %s, expected %s" % (R.to_jsonable(got), R.to_jsonable(rexpr))
    want = ctx.Point if kind == "P" else ctx.Expression
    if type(res) is not want:
        return "result type %s, expected %s" % (type(res).__name__, want.__name__)
    if res.get_is_leaf():
        return "result of an operator is flagged as a leaf"
    got = ctx.canon(res)
    if not _same(got, ref, tol):
        return "denotes %s, expected %s" % (R.to_jsonable(got), R.to_jsonable(ref))
    return None


def _same(got, ref, tol):
    # a canonical coefficient merges at most two raw coefficients (mirrored inner products): factor 2, doubled again
    return R.close(got, ref, Fraction(4 * tol))


def expand(desc, levels):
    """Nested JSON-able description of a tree from a stored node description."""
    if desc[0] == "leaf":
        return ["leaf", desc[1]]
    out = [desc[0]]
    for a in desc[1:]:
        if isinstance(a, tuple):     # (type, size, index)
            out.append(expand(levels[(a[0], a[1])][a[2]].desc, levels))
        else:
            out.append(a)
    return out


def step(ctx, op, operands):
    """Execute one operator on the real DSL and in the reference algebra.
    Returns (real result, reference result or None if the real op raised, [(finding key, message)], err, amax)."""
    kinds = OPS[op][1]
    real_args = [SCALARS[o] if k in "sd" else o.obj for k, o in zip(kinds, operands)]
    ref_args = [o if k in "sd" else o.ref for k, o in zip(kinds, operands)]
    problems = []
    try:
        with warnings.catch_warnings():
            warnings.simplefilter("ignore")
            res = real_apply(op, real_args[0], real_args[1] if len(real_args) > 1 else None)
    except Exception as e:
        return None, None, [("raise:%s" % op, "well-typed operation raised %s: %s" % (type(e).__name__, e))], 0.0, 0.0
    base = INPLACE.get(op, op)
    ref = ref_apply(base, ref_args[0], ref_args[1] if len(ref_args) > 1 else None)
    carrier = getattr(res, "expression", res)
    try:
        rmax = raw_max(carrier)
    except Exception:
        rmax = 0.0
    err = err_bound(base, operands, kinds, rmax)
    msg = compare(ctx, base, res, ref, err)
    if op in INPLACE and res is operands[0].obj:
        problems.append(("operand-mutated:%s" % op, "the augmented assignment returned its left operand object itself (modified in place)"))
    if msg:
        problems.append(("meaning:%s" % op, msg))
    for k, o in zip(kinds, operands):
        if k in "PE" and snapshot(o.obj) != o.snap:
            problems.append(("operand-mutated:%s" % op, "an operand was changed by the operation"))
            o.snap = snapshot(o.obj)
    return res, ref, problems, err, rmax + err


class Enum(object):
    def __init__(self, scalars, nmax, shard, nshards):
        self.ctx = Ctx()
        self.scalars = scalars
        self.nmax, self.shard, self.nshards = nmax, shard, nshards
        self.levels = {("P", 0): [self.ctx.leaf_node(n) for n in P_LEAVES],
                       ("E", 0): [self.ctx.leaf_node(n) for n in E_LEAVES]}
        self.stats = dict(evaluations=0, transitions=0, nontrivial=0)
        self.outcomes = {}
        self.values = set()
        self.violations = []
        self.samples = []
        self.cand = 0

    def operand_lists(self, kinds, size):
        """All operand tuples for a node of `size` operators with operand kinds `kinds`."""
        if len(kinds) == 1:
            for i, n in enumerate(self.levels[(kinds, size - 1)]):
                yield ((kinds, size - 1, i),), (n,)
            return
        k1, k2 = kinds
        if k1 in "PE" and k2 in "PE":
            for s1 in range(size):
                s2 = size - 1 - s1
                l1, l2 = self.levels[(k1, s1)], self.levels[(k2, s2)]
                for i, a in enumerate(l1):
                    for j, b in enumerate(l2):
                        yield ((k1, s1, i), (k2, s2, j)), (a, b)
        elif k1 == "s":
            for s in self.scalars:
                for j, b in enumerate(self.levels[(k2, size - 1)]):
                    yield (s, (k2, size - 1, j)), (s, b)
        else:   # (x, s) or (x, d)
            for i, a in enumerate(self.levels[(k1, size - 1)]):
                for s in self.scalars:
                    if k2 == "d" and SCALARS[s] == 0:
                        continue
                    yield ((k1, size - 1, i), s), (a, s)

    def one(self, op, refs, operands, store):
        self.stats["evaluations"] += 1
        self.stats["transitions"] += 1
        kinds = OPS[op][1]
        desc = (op,) + tuple(refs)
        res, ref, problems, err, amax = step(self.ctx, op, operands)
        for key, msg in problems:
            self.fail(desc, key, msg)
        if ref is None:
            return None
        kind = OPS[op][0]
        if kind == "C":
            oc = "C:" + ref[0] + (":trivial" if not ref[1] else "")
            self.values.add((kind, ref[0], R.freeze(ref[1])))
            if ref[1]:
                self.stats["nontrivial"] += 1
        else:
            oc = kind + ":" + ("zero" if not ref else "terms%d" % min(len(ref), 6))
            self.values.add((kind, R.freeze(ref)))
            if ref:
                self.stats["nontrivial"] += 1
        self.outcomes[oc] = self.outcomes.get(oc, 0) + 1
        if len(self.samples) < 3 and self.stats["evaluations"] % 997 == 1:
            self.samples.append(dict(tree=expand(desc, self.levels), denotes=R.to_jsonable(ref if kind != "C" else ref[1])))
        if store and kind != "C" and not problems:
            return Node(res, ref, desc, err, amax)
        return None

    def fail(self, desc, key, msg):
        if len(self.violations) < 50:
            self.violations.append(dict(key=key, msg=msg, case=dict(kind="tree", tree=expand(desc, self.levels))))

    def run(self):
        for size in range(1, self.nmax + 1):
            last = size == self.nmax
            newP, newE = [], []
            for op in OP_ORDER:
                kind, kinds = OPS[op]
                for refs, operands in self.operand_lists(kinds, size):
                    if last or kind == "C" or op in INPLACE:
                        # (augmented assignments denote what their plain operator denotes: judged at every size, never
                        #  stored as operands of larger trees)
                        self.cand += 1
                        if self.cand % self.nshards != self.shard:
                            continue
                        self.one(op, refs, operands, store=False)
                    else:
                        # lower levels are rebuilt by every shard (needed as operands); counted by shard 0 only
                        ev = dict(self.stats)
                        node = self.one(op, refs, operands, store=True)
                        if self.shard != 0:
                            self.stats = ev
                        if node is not None:
                            (newP if kind == "P" else newE).append(node)
            if not last:
                self.levels[("P", size)] = newP
                self.levels[("E", size)] = newE
            if self.ctx.registry_state() != self.ctx.registry:
                self.fail(("leaf", "p0"), "registry-changed", "building derived objects changed the leaf registries "
                          "%s -> %s" % (self.ctx.registry, self.ctx.registry_state()))


# ---- ill-typed roots --------------------------------------------------------------------------------------------

def illtyped_cases():
    """(description, thunk-description) of operand kinds outside the documented ones."""
    bad_values = ["None", "str", "complex", "list", "dict", "tuple"]
    cases = []
    for b in bad_values + ["E"]:
        for op in ["add", "radd", "sub", "rsub", "mul", "rmul", "div"]:
            cases.append(("P", op, b))
    for b in bad_values + ["P"]:
        for op in ["add", "radd", "sub", "rsub", "mul", "rmul", "div", "le", "ge", "eq", "lt", "gt"]:
            cases.append(("E", op, b))
    for s in ["0", "1", "2", "0.5", "np2"]:
        for op in ["add", "radd", "sub", "rsub"]:
            cases.append(("P", op, "s" + s))          # point +- scalar
        cases.append(("P", "rdiv", "s" + s))           # scalar / point
        cases.append(("E", "rdiv", "s" + s))
    cases.append(("E", "mul", "E"))                    # expression * expression
    cases.append(("E", "div", "E"))
    cases.append(("P", "div", "P"))
    cases.append(("P", "div", "s0"))                   # division by zero
    cases.append(("E", "div", "s0"))
    for pw in ["0", "1", "3", "-1", "0.5", "None"]:
        cases.append(("P", "pow", "w" + pw))
    cases.append(("E", "pow", "w2"))
    return cases


def run_illtyped(case):
    """Returns None if the ill-typed operation raised, else a message."""
    kind, op, b = case
    ctx = Ctx()
    a = ctx.leaves["p0"] + ctx.leaves["p1"] if kind == "P" else ctx.leaves["e0"] + ctx.leaves["p0"] * ctx.leaves["p1"]
    vals = {"None": None, "str": "a", "complex": 1j, "list": [1, 2], "dict": {1: 2}, "tuple": (1, 2),
            "E": ctx.leaves["e1"], "P": ctx.leaves["p2"]}
    if b[0] == "s" and b != "str":
        other = SCALARS[b[1:]]
    elif b[0] == "w":
        other = None if b[1:] == "None" else float(b[1:]) if "." in b[1:] else int(b[1:])
    else:
        other = vals[b]
    try:
        with warnings.catch_warnings():
            warnings.simplefilter("ignore")
            if op == "add": r = a + other
            elif op == "radd": r = other + a
            elif op == "sub": r = a - other
            elif op == "rsub": r = other - a
            elif op == "mul": r = a * other
            elif op == "rmul": r = other * a
            elif op == "div": r = a / other
            elif op == "rdiv": r = other / a
            elif op == "pow": r = a ** other
            elif op == "le": r = a <= other
            elif op == "ge": r = a >= other
            elif op == "eq": r = a == other
            elif op == "lt": r = a < other
            elif op == "gt": r = a > other
    except Exception:
        return None
    from PEPit.constraint import Constraint
    if isinstance(r, (ctx.Point, ctx.Expression, Constraint)) or (op not in ("eq",) and r is not NotImplemented):
        return "ill-typed operation %s %s %s returned %s instead of raising" % (kind, op, b, type(r).__name__)
    return None


# ---- PSD matrices of expressions (entries keep their meaning; bad entries raise) ---------------------------------

def psd_cases():
    ent = ["e0", "dot01", "sum", "i2", "f0.5", "i0"]
    # matrices whose entries are ALL plain numbers are left out: numpy turns them into a numeric array and the
    # constructor rejects its own documented entry kind (raises TypeError) - no object is produced, so this is
    # outside what C06 states; recorded in DESIGN.md as an observation.
    sc = {"i2", "f0.5", "i0"}
    cases = [("1x1", (a,)) for a in ent if a not in sc]
    cases += [("2x2", c) for c in itertools.product(ent, repeat=4) if not set(c) <= sc]
    cases += [("bad", (b,)) for b in ["None", "str", "P", "nonsquare", "complex"]]
    return cases


def run_psd(case):
    from PEPit.psd_matrix import PSDMatrix
    shape, names = case
    ctx = Ctx()
    L = ctx.leaves
    objs = {"e0": L["e0"], "dot01": L["p0"] * L["p1"], "sum": L["e0"] + 2 * L["e1"] - 1, "i2": 2, "f0.5": 0.5, "i0": 0}
    refs = {"e0": {('F', 'e0'): Fraction(1)}, "dot01": {('G', 'p0', 'p1'): Fraction(1)},
            "sum": {('F', 'e0'): Fraction(1), ('F', 'e1'): Fraction(2), ('1',): Fraction(-1)},
            "i2": {('1',): Fraction(2)}, "f0.5": {('1',): Fraction(1, 2)}, "i0": {}}
    if shape == "bad":
        bad = {"None": [[None]], "str": [["a"]], "P": [[L["p0"]]], "nonsquare": [[L["e0"], L["e1"]]],
               "complex": [[1j]]}[names[0]]
        try:
            PSDMatrix(bad)
        except Exception:
            return None
        return "PSDMatrix accepted an invalid entry (%s)" % names[0]
    mat = [[objs[names[0]]]] if shape == "1x1" else [[objs[names[0]], objs[names[1]]], [objs[names[2]], objs[names[3]]]]
    snaps = {k: snapshot(v) for k, v in objs.items() if not isinstance(v, (int, float))}
    try:
        M = PSDMatrix(mat)
    except Exception as e:
        return "PSDMatrix raised %s on valid entries" % type(e).__name__
    n = 1 if shape == "1x1" else 2
    if tuple(M.shape) != (n, n):
        return "shape %s" % (M.shape,)
    for i in range(n):
        for j in range(n):
            nm = names[i * n + j]
            ent = M[i, j]
            if not isinstance(ent, ctx.Expression):
                return "entry (%d,%d) is a %s" % (i, j, type(ent).__name__)
            if not R.close(ctx.canon(ent), refs[nm]):
                return "entry (%d,%d) denotes %s, written %s" % (i, j, R.to_jsonable(ctx.canon(ent)), nm)
    for k, s in snaps.items():
        if snapshot(objs[k]) != s:
            return "entry object %s mutated" % k
    return None


# ---- interface ---------------------------------------------------------------------------------------------------

def _tiers(tier):
    # (scalar alphabet, max operator nodes, number of shards)
    if tier == "quick":
        return [("full", SC_FULL, 3, 15)]
    return [("full", SC_FULL, 3, 16), ("reduced", SC_RED, 4, 64)]


def shards(tier):
    out = [dict(kind="illtyped"), dict(kind="psd")]
    for name, _, nmax, ns in _tiers(tier):
        out += [dict(kind="trees", alphabet=name, nmax=nmax, shard=i, nshards=ns) for i in range(ns)]
    return out


def run_shard(shard, tier):
    if shard["kind"] == "illtyped":
        cases = illtyped_cases()
        viol, outc = [], {}
        for c in cases:
            m = run_illtyped(c)
            outc["illtyped:" + ("raised" if m is None else "returned")] = outc.get("illtyped:" + ("raised" if m is None else "returned"), 0) + 1
            if m:
                viol.append(dict(key="illtyped:%s:%s:%s" % c, msg=m, case=dict(kind="illtyped", case=list(c))))
        return dict(evaluations=len(cases), states=len(cases), transitions=len(cases), nontrivial=len(cases),
                    outcomes=outc, violations=viol, samples=[dict(illtyped=list(cases[0]))], extra={})
    if shard["kind"] == "psd":
        cases = psd_cases()
        viol, outc = [], {}
        for c in cases:
            m = run_psd(c)
            k = "psd:" + c[0] + (":ok" if m is None else ":bad")
            outc[k] = outc.get(k, 0) + 1
            if m:
                viol.append(dict(key="psd:%s" % c[0], msg=m, case=dict(kind="psd", case=[c[0], list(c[1])])))
        return dict(evaluations=len(cases), states=len(cases), transitions=len(cases), nontrivial=len(cases),
                    outcomes=outc, violations=viol, samples=[dict(psd=[cases[7][0], list(cases[7][1])])], extra={})
    sc = SC_FULL if shard["alphabet"] == "full" else SC_RED
    en = Enum(sc, shard["nmax"], shard["shard"], shard["nshards"])
    en.run()
    return dict(evaluations=en.stats["evaluations"], states=len(en.values), transitions=en.stats["transitions"],
                nontrivial=en.stats["nontrivial"], outcomes=en.outcomes, violations=en.violations,
                samples=en.samples, extra={"trees": en.stats["evaluations"]})


def replay(case):
    if case["kind"] == "illtyped":
        m = run_illtyped(tuple(case["case"]))
        return [dict(key="illtyped:%s:%s:%s" % tuple(case["case"]), msg=m, case=case)] if m else []
    if case["kind"] == "psd":
        c = (case["case"][0], tuple(case["case"][1]))
        m = run_psd(c)
        return [dict(key="psd:%s" % c[0], msg=m, case=case)] if m else []
    ctx = Ctx()
    out = []

    def build(t):
        if t[0] == "leaf":
            return ctx.leaf_node(t[1])
        op = t[0]
        kinds = OPS[op][1]
        operands = [a if k in "sd" else build(a) for k, a in zip(kinds, t[1:])]
        res, ref, problems, err, amax = step(ctx, op, operands)
        for key, msg in problems:
            out.append(dict(key=key, msg=msg, case=case))
        if ref is None:
            raise RuntimeError("operation raised")
        if OPS[op][0] == "C":
            return None
        return Node(res, ref, tuple(t), err, amax)
    try:
        build(case["tree"])
    except Exception:
        if not out:
            raise
    if ctx.registry_state() != ctx.registry:
        out.append(dict(key="registry-changed", msg="leaf registries changed", case=case))
    return out


def meta(tier):
    t = _tiers(tier)
    return dict(
        rule="every typed tree with <= N operator nodes over leaves {p0,p1,p2,e0,e1}, scalar alphabet and all operator "
             "overloads (incl. reflected ones and comparisons at the root) is executed on the real DSL and in exact "
             "rational reference algebra; equal canonical forms <=> equal value under every assignment. "
             "evaluations/transitions = operator applications = trees (lower levels are shared sub-trees, counted "
             "once); states = distinct denoted values, counted per shard; non-trivial = result is not identically "
             "zero. Plus every ill-typed operand pair at the root and all 1x1/2x2 PSD matrices over 6 entry kinds.",
        bounds={"alphabets": [dict(name=n, scalars=s, max_operator_nodes=k) for n, s, k, _ in t]},
        exhaustive=True,
        assumptions=["scalars are drawn from the listed alphabet; real and reference coefficients are compared up to "
                     "a rigorous running bound of the IEEE rounding error of the tree (a few ulps of its largest "
                     "intermediate coefficient; exact scalars such as 2^-40 keep tiny coefficients visible)",
                     "equality constraints are accepted up to sign of the expression"],
    )
