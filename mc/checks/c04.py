"""C04 - class constraints are complete and independent of the declaration order.

For every shipped class x parameter tuple, ALL declaration histories up to a length bound over
{evaluation at a new point, repeated evaluation at an evaluated point, evaluation at a combination of evaluated points,
stationary point, fixed point, (linear operator) adjoint evaluations, (nonexpansive) displacement vector} x {named,
unnamed} are replayed on the real class; the generated system is compared, as a set of normalised functionals and LMIs,
with the documented conditions instantiated on the recorded samples BY IDENTITY (mc.catalog.conditions).  When the two
systems are not syntactically equal, equivalence is decided semantically: each unmatched condition must be implied by
the other system over all PSD Gram matrices (small SDP); only a separating point is a violation."""
import itertools

import numpy as np

from mc import models
from mc import refalg as R
from mc.catalog import conditions as COND

PROPERTY = "C04"
LEVEL = "model_checking"

OPS_COMMON = ["e", "r", "c", "s", "x", "S", "a"]


def ops_for(cls):
    ops = list(OPS_COMMON)
    if cls == "LinearOperator":
        ops += ["t", "T"]
    if cls == "NonexpansiveOperator":
        ops += ["v"]
    return ops


INF = float("inf")
# edge values the classes allow (each prints a warning at most): appended to the grammar's parameter tuples for C04 only
EDGE_PARAMS = {
    "StronglyConvexFunction": [{"mu": 0.0}],
    "SmoothConvexFunction": [{"L": INF}],
    "SmoothStronglyConvexFunction": [{"mu": 0.1, "L": INF}, {"mu": 0.0, "L": INF}],
    "SmoothConvexLipschitzFunction": [{"L": INF, "M": 1.0}],
    "CocoerciveOperator": [{"beta": 0.0}],
    "CocoerciveStronglyMonotoneOperator": [{"mu": 0.0, "beta": 0.0}, {"mu": 0.0, "beta": 1.0}, {"mu": 0.5, "beta": 0.0}],
    "StronglyMonotoneOperator": [{"mu": 0.0}],
    "LipschitzStronglyMonotoneOperator": [{"mu": 0.0, "L": 1.0}],
    "NegativelyComonotoneOperator": [{"rho": 0.0}],
    "SymmetricLinearOperator": [{"mu": 0.0, "L": 1.0}, {"mu": 1.0, "L": 1.0}],
    "SmoothStronglyConvexQuadraticFunction": [{"mu": 1.0, "L": 1.0}],
    "ConvexIndicatorFunction": [{"D": 0.0}],                      # the indicator of a single point
    "ConvexSupportFunction": [{"M": 0.0}],
    "ConvexLipschitzFunction": [{"M": 0.0}],
}
EDGE_PARAMS["SmoothStronglyConvexFunction"].append({"mu": 1.0 - 1e-6, "L": 1.0})      # condition number within 1e-6 of one



def params_of(cls):
    return list(models.CLASSES[cls]["params"]) + EDGE_PARAMS.get(cls, [])


def build(cls, par_index, hist, named):
    """Replays a declaration history on a fresh PEP; returns (f, ctx dict) or None if the history is not enabled."""
    from PEPit import PEP, Point
    info = models.CLASSES[cls]
    par = dict(params_of(cls)[par_index])
    p = PEP()
    kw = dict(par)
    part = None
    if cls == "BlockSmoothConvexFunction":
        part = p.declare_block_partition(d=len(par["L"]))
        kw["partition"] = part
    if named:
        kw["name"] = "F"
    import contextlib, io
    with contextlib.redirect_stdout(io.StringIO()):      # edge parameter values print an advisory message
        f = p.declare_function(models.get_class(cls), **kw)
    pts = []
    k = 0
    for op in hist:
        k += 1
        nm = ("pt%d" % k) if named and k % 2 == 1 else None
        if op == "e":
            x = Point(name=nm)
            f.oracle(x)
            pts.append(x)
        elif op == "r":
            if not pts:
                return None
            f.oracle(pts[0])
        elif op == "c":
            if not pts:
                return None
            x = (pts[0] + pts[-1]) if len(pts) > 1 else 2 * pts[0]
            f.oracle(x)
            pts.append(x)
        elif op == "s":
            pts.append(f.stationary_point(name=nm))
        elif op == "x":
            x, _, _ = f.fixed_point(name=nm)
            pts.append(x)
        elif op == "S":
            pts.append((2 * f).stationary_point(name=nm))     # stationary point declared through a multiple of f
        elif op == "a":
            from PEPit import Expression
            from PEPit.point import null_point
            x = Point(name=nm)
            f.add_point((x, null_point, Expression()))          # a sample with zero gradient recorded by hand
            pts.append(x)
        elif op == "t":
            f.T.oracle(Point(name=nm))
        elif op == "T":
            if not f.list_of_points:
                return None
            f.T.oracle(f.list_of_points[0][1])       # adjoint evaluated at an output of the operator
        elif op == "v":
            if getattr(f, "v", None) is not None:
                return None
            f.v = Point(name=nm) if not f.list_of_points else f.list_of_points[0][0] - f.list_of_points[0][1]
        else:
            raise KeyError(op)
    return f, par, p, part


def nvec(v, sense):
    """normalised functional: inequality up to positive scaling, equality up to scaling and sign; () if trivially true"""
    v = np.asarray(v, float)
    body = v[:-1]
    m = np.abs(body).max(initial=0.0)
    if m <= 1e-12:
        if (sense == "inequality" and v[-1] <= 1e-12) or (sense == "equality" and abs(v[-1]) <= 1e-12):
            return ()
        return ("infeasible", sense)
    w = v / m
    if sense == "equality":
        first = w[np.nonzero(np.abs(w) > 1e-9)[0][0]]
        if first < 0:
            w = -w
    return (sense,) + tuple(np.round(w, 7).tolist())


def lmi_forms(T, nP, nF):
    """(symmetrised entry functionals as one normalised array, set of implied equalities T_ij == T_ji)"""
    n = T.shape[0]
    ent = [[R.functional_vec(T[i, j], nP, nF) for j in range(n)] for i in range(n)]
    sym = np.array([[(ent[i][j] + ent[j][i]) / 2 for j in range(n)] for i in range(n)]) if n else np.zeros((0, 0, 1))
    implied = set()
    for i in range(n):
        for j in range(i):
            nv = nvec(ent[i][j] - ent[j][i], "equality")
            if nv:
                implied.add(nv)
    m = np.abs(sym).max(initial=0.0)
    if m > 0:
        sym = sym / m
    return sym, implied


def separating_point(system, target, nP, nF):
    """max of target's violation subject to `system` (scalars + LMIs), Gram PSD, box normalisation.  Returns the optimal
    violation (> tolerance means: target is NOT implied by system)."""
    import cvxpy as cp
    G = cp.Variable((nP, nP), symmetric=True)
    F = cp.Variable(nF) if nF else None
    iu = np.triu_indices(nP)

    def aff(v):
        M = np.zeros((nP, nP))
        M[iu] = v[:len(iu[0])]
        M = (M + M.T) / 2 + np.diag(np.diag(M)) / 2      # monomial coefficients -> symmetric matrix
        e = cp.sum(cp.multiply(M, G)) + v[-1]
        if nF:
            e = e + v[len(iu[0]):-1] @ F
        return e
    cons = [G >> 0, cp.trace(G) <= 100.0]
    if nF:
        cons += [F <= 100.0, F >= -100.0]
    for sense, v in system["scalars"]:
        cons.append(aff(v) <= 0 if sense == "inequality" else aff(v) == 0)
    for T in system["lmis"]:
        n = T.shape[0]
        if n:
            cons.append(cp.bmat([[aff((T[i][j] + T[j][i]) / 2) for j in range(n)] for i in range(n)]) >> 0)
            for i in range(n):
                for j in range(i):
                    if np.abs(T[i][j] - T[j][i]).max() > 1e-12:
                        cons.append(aff(T[i][j] - T[j][i]) == 0)
    sense, v = target
    worst = 0.0
    for sgn in ([1.0] if sense == "inequality" else [1.0, -1.0]):
        prob = cp.Problem(cp.Maximize(sgn * aff(v)), cons)
        try:
            prob.solve(solver="CLARABEL")
        except Exception:
            return None
        if prob.status not in ("optimal", "optimal_inaccurate"):
            return None if prob.status not in ("infeasible", "infeasible_inaccurate") else 0.0
        worst = max(worst, float(prob.value))
    return worst


def judge(cls, par_index, hist, named, reparam=None):
    """reparam: index of another parameter tuple; the class constraints are generated once, the parameters of the same
    object are then changed to that tuple and the constraints generated again (as a second solve would)."""
    from PEPit.point import Point
    from PEPit.expression import Expression
    built = build(cls, par_index, hist, named)
    if built is None:
        return None, "disabled"
    f, par, pep, part = built
    try:
        f.set_class_constraints()
        if reparam is not None:
            par = dict(params_of(cls)[reparam])
            for k_, v_ in par.items():
                if not hasattr(f, k_):
                    return None, "disabled"
                setattr(f, k_, v_)
            f.set_class_constraints()
    except Exception as e:
        return [("generation-raised:%s:%s" % (cls, type(e).__name__), "set_class_constraints raised %s: %s after %s"
                 % (type(e).__name__, str(e)[:120], "".join(hist)))], "raised"
    try:
        ref_sc, ref_lm = COND.reference(cls, par, f)
    except Exception as e:
        return [("reference-raised:%s" % cls, "%s: %s" % (type(e).__name__, e))], "reference-raised"
    nP, nF = Point.counter, Expression.counter
    gen = {}
    for c in f.list_of_class_constraints:
        nv = nvec(R.functional_vec(c.expression, nP, nF), c.equality_or_inequality)
        if nv:
            gen.setdefault(nv, []).append(c)
    ref = {}
    for sense, e, label, _at in ref_sc:
        nv = nvec(R.functional_vec(e, nP, nF), sense)
        if nv:
            ref.setdefault(nv, []).append(label)
    gen_l = [lmi_forms(M.matrix_of_expressions, nP, nF) for M in f.list_of_class_psd if M.shape[0] > 0]
    ref_l = [lmi_forms(T, nP, nF) for T in ref_lm if T.shape[0] > 0]
    probs = []
    # ---- LMIs: same list up to symmetrisation and positive scaling
    lmi_ok = len(gen_l) == len(ref_l)
    if lmi_ok:
        used = set()
        for gs, gi in gen_l:
            hit = [k for k, (rs, ri) in enumerate(ref_l) if k not in used and rs.shape == gs.shape and np.abs(rs - gs).max(initial=0.0) <= 1e-7]
            if not hit:
                lmi_ok = False
                break
            used.add(hit[0])
    if not lmi_ok:
        probs.append(("lmi-differs:%s" % cls, "the class LMIs (%s) are not the documented ones (%s) on samples declared as %s"
                      % ([g[0].shape[0] for g in gen_l], [r[0].shape[0] for r in ref_l], "".join(hist))))
    ref_eqs = set(k for k in ref if k and k[0] == "equality")
    for rs, ri in ref_l:
        ref_eqs |= ri
    for gs, gi in gen_l:
        for nv in gi:
            if nv not in ref_eqs:
                probs.append(("lmi-implied-equality:%s" % cls, "an LMI written non-symmetrically implies an equality the class does not document"))
                break
    # ---- scalars
    missing = [k for k in ref if k not in gen]
    extra = [k for k in gen if k not in ref and not (k[0] == "equality" and any(k in gi for _, gi in gen_l))]
    label = "equal"
    undecided = []
    if missing or extra:
        label = "differs-syntactically"
        nb = lambda k: np.array(k[1:], float)
        sysg = dict(scalars=[(k[0], nb(k)) for k in gen if k[0] != "infeasible"],
                    lmis=[[[R.functional_vec(M[i, j], nP, nF) for j in range(M.shape[1])] for i in range(M.shape[0])] for M in f.list_of_class_psd if M.shape[0]])
        sysr = dict(scalars=[(k[0], nb(k)) for k in ref if k[0] != "infeasible"],
                    lmis=[[[R.functional_vec(T[i, j], nP, nF) for j in range(T.shape[1])] for i in range(T.shape[0])] for T in ref_lm if T.shape[0]])
        for lm_ in (sysg, sysr):
            lm_["lmis"] = [np.array(t) for t in lm_["lmis"]]
        for k in missing[:3]:
            lab = ref[k][0]
            val = separating_point(sysg, (k[0], nb(k)), nP, nF) if k[0] != "infeasible" else 1.0
            if val is None:
                undecided.append(lab)
            elif val > 1e-5:
                probs.append(("missing:%s:%s" % (cls, lab), "documented condition '%s' is neither generated nor implied by the "
                              "generated system (samples declared as %s; a PSD Gram matrix satisfying everything generated violates it by %.3g)"
                              % (lab, "".join(hist), val)))
        for k in extra[:3]:
            val = separating_point(sysr, (k[0], nb(k)), nP, nF) if k[0] != "infeasible" else 1.0
            name = gen[k][0].get_name()
            if val is None:
                undecided.append("extra")
            elif val > 1e-5:
                probs.append(("extra:%s" % cls, "generated constraint %s is not implied by the documented conditions (violated by %.3g "
                              "at a point satisfying them; samples declared as %s)" % (name, val, "".join(hist))))
        if undecided:
            label = "undecided-by-solver"
        elif not probs:
            label = "equivalent-semantically"
    seen, out = set(), []
    for k, m in probs:
        if k not in seen:
            seen.add(k); out.append((k, m))
    return out, label


# ---- order independence of solved values (thorough) -------------------------------------------------------------------

def solve_orders(cls, par_index):
    """Same samples declared in every order must give the same worst-case value."""
    from mc import solving
    vals = {}
    for pattern in (["sf", "sl"] + (["two"] if models.CLASSES[cls]["kind"] == "f" else [])):
        for n in (1, 2):
            spec = dict(cls=cls, par=par_index, pattern=pattern, metric=models.CLASSES[cls]["metrics"][0], init="dist", n=n)
            ctx = models.build(spec)
            r = solving.solve(ctx.pep)
            if r["exc"] is None and r["status"] == "optimal" and r["value"] is not None:
                vals.setdefault(n, {})[pattern] = r["value"]
    probs = []
    # the same samples held in another order (rotation, reversal) must give the same value as well
    from PEPit.function import Function
    for pattern in ("sf", "sl"):
        for n in (1, 2):
            spec = dict(cls=cls, par=par_index, pattern=pattern, metric=models.CLASSES[cls]["metrics"][0], init="dist", n=n)
            base = vals.get(n, {}).get(pattern)
            if base is None:
                continue
            for perm in ("rotate", "reverse"):
                ctx = models.build(spec)
                for f_ in Function.list_of_functions:
                    lp = f_.list_of_points
                    if len(lp) > 1:
                        f_.list_of_points = (lp[1:] + lp[:1]) if perm == "rotate" else lp[::-1]
                r = solving.solve(ctx.pep)
                if r["exc"] is not None and type(r["exc"]).__name__ != "SolverError":
                    probs.append(("order-dependent-raises:%s" % cls, "n=%d %s: solving with the samples held in %sd order raised %s"
                                  % (n, pattern, perm, type(r["exc"]).__name__)))
                elif r["exc"] is None and r["status"] == "optimal" and (r["value"] is None or abs(r["value"] - base) > 2e-5 * max(1, abs(base))):
                    probs.append(("order-dependent-value:%s" % cls, "n=%d %s: value %.8g with the samples in declaration order, %r with the same "
                                  "samples held in %sd order" % (n, pattern, base, r["value"], perm)))
    for n, d in vals.items():
        base = d.get("sf")
        for pat, v in d.items():
            if base is not None and pat in ("sl",) and abs(v - base) > 2e-5 * max(1, abs(base)):
                probs.append(("order-dependent-value:%s" % cls, "n=%d: stationary point declared first gives %.8g, declared last %.8g" % (n, base, v)))
    return probs


# ---- interface ------------------------------------------------------------------------------------------------------

def _depth(tier):
    return 3 if tier == "quick" else 4


def shards(tier):
    out = []
    for cls in models.CLASS_NAMES:
        npar = len(params_of(cls))
        for pi in range(npar):
            for first in ops_for(cls):
                out.append(dict(cls=cls, par=pi, first=first, depth=_depth(tier)))
        out.append(dict(cls=cls, par=0, kind="orders"))
    return out


def run_shard(shard, tier):
    cls = shard["cls"]
    if shard.get("kind") == "orders":
        probs = solve_orders(cls, shard["par"])
        return dict(evaluations=1, states=1, transitions=1, nontrivial=1, outcomes={"orders": 1},
                    violations=[dict(key=k, msg=m, case=dict(kind="orders", cls=cls, par=shard["par"])) for k, m in probs],
                    samples=[], extra={})
    ops = ops_for(cls)
    ev = tr = nontriv = 0
    outcomes, viol, samples = {}, [], []
    for depth in range(1, shard["depth"] + 1):
        for rest in itertools.product(ops, repeat=depth - 1):
            hist = (shard["first"],) + rest
            variants = [(False, None)] + ([(True, None)] if depth <= 2 else [])
            npar = len(params_of(cls))
            if depth <= 2 and npar > 1 and cls != "BlockSmoothConvexFunction":
                variants.append((False, (shard["par"] + 1) % npar))
            for named, reparam in variants:
                probs, label = judge(cls, shard["par"], hist, named, reparam)
                if probs is None:
                    continue
                if reparam is not None:
                    probs = [(k + ":after-parameter-change", m) for k, m in probs]
                    named = [named, reparam]
                ev += 1; tr += len(hist)
                nontriv += 1 if len(hist) >= 2 else 0
                outcomes[label] = outcomes.get(label, 0) + 1
                for k, m in probs:
                    if len(viol) < 40:
                        viol.append(dict(key=k, msg=m, case=dict(kind="history", cls=cls, par=shard["par"], history="".join(hist), named=named)))
    samples.append(dict(cls=cls, par=shard["par"], history=shard["first"] + "se", named=False))
    return dict(evaluations=ev, states=ev, transitions=tr, nontrivial=nontriv, outcomes=outcomes, violations=viol,
                samples=samples, extra={})


def replay(case):
    if case.get("kind") == "orders":
        return [dict(key=k, msg=m, case=case) for k, m in solve_orders(case["cls"], case["par"])]
    nm = case["named"]
    reparam = None
    if isinstance(nm, list):
        nm, reparam = nm
    probs, _ = judge(case["cls"], case["par"], tuple(case["history"]), nm, reparam)
    if reparam is not None:
        probs = [(k + ":after-parameter-change", m) for k, m in (probs or [])]
    return [dict(key=k, msg=m, case=case) for k, m in (probs or [])]


def meta(tier):
    return dict(
        rule="for each of the 24 classes x parameter tuples: all declaration histories of length <= %d over "
             "{e: evaluate at a new point, r: evaluate again at the first point, c: evaluate at a combination, s: stationary "
             "point, S: stationary point declared through 2*f, a: zero-gradient sample added by hand, x: fixed point, t/T: adjoint evaluations (LinearOperator), v: displacement vector (Nonexpansive)}, named "
             "and unnamed; generated scalar constraints and LMIs compared with the documented conditions instantiated by "
             "sample identity (normalised functionals; LMIs up to symmetrisation and scaling); syntactic differences are "
             "decided by an implication SDP in both directions; for histories <= 2 also after changing the parameters of "
             "the same object and regenerating; plus, per class, the solved worst-case value with the "
             "stationary point declared first vs last. non-trivial = at least two declarations." % _depth(tier),
        bounds=dict(depth=_depth(tier)),
        exhaustive=True,
        assumptions=["the documented conditions are those of DESIGN.md Appendix A (class docstrings / cited theorems)",
                     "LMIs are compared syntactically up to symmetrisation, scaling and order; implication between scalar "
                     "conditions is decided on the box trace(G) <= 100, |F| <= 100",
                     "the clause 'a finite primal value is attained by a real member' is NOT decided here (it needs an "
                     "interpolating construction); see C09's tightness witnesses"],
        trusted_base=["mc/catalog/conditions.py", "mc/refalg.py"],
    )
