"""Stand-in for the `mosek` package: records a Task as data, solves it through cvxpy, answers in MOSEK's
documented conventions, and checks its own answer against MOSEK's dual equations before returning it."""
import enum
import numpy as np

class Error(Exception):
    pass

class feature(enum.Enum):
    pts = 0; pton = 1
class streamtype(enum.Enum):
    log = 0; msg = 1; err = 2; wrn = 3
class boundkey(enum.Enum):
    lo = 0; up = 1; fx = 2; fr = 3; ra = 4
class soltype(enum.Enum):
    itr = 0; bas = 1; itg = 2
class objsense(enum.Enum):
    minimize = 0; maximize = 1
class prosta(enum.Enum):
    unknown = 0; prim_and_dual_feas = 1; prim_feas = 2; dual_feas = 3; prim_infeas = 4; dual_infeas = 5
    prim_and_dual_infeas = 6; ill_posed = 7; prim_infeas_or_unbounded = 8
class solsta(enum.Enum):
    unknown = 0; optimal = 1; prim_feas = 2; dual_feas = 3; prim_and_dual_feas = 4
    prim_infeas_cer = 5; dual_infeas_cer = 6; prim_illposed_cer = 7; dual_illposed_cer = 8; integer_optimal = 9
class rescode(enum.Enum):
    ok = 0

IS_STANDIN = True
LOG = []          # global call log (appended by every Task), cleared by the harness
CONFIG = {"solver": "CLARABEL", "solver_opts": {}, "licensed": True, "check_tol": 1e-6}

def _idx(a, what, hi):
    arr = np.asarray(a)
    if arr.size and not np.issubdtype(arr.dtype, np.integer):
        if not np.all(np.equal(np.mod(arr, 1), 0)):
            raise Error("%s: non-integer index" % what)
    out = [int(v) for v in arr.ravel()]
    for v in out:
        if v < 0 or v >= hi:
            raise Error("%s: index %d out of range [0,%d)" % (what, v, hi))
    return out

class Env(object):
    def __init__(self): pass
    def Task(self, *a): return Task(self)
    def checkoutlicense(self, feat):
        if not CONFIG["licensed"]: raise Error("no license")
    def expirylicenses(self): return 365 if CONFIG["licensed"] else -1
    def __enter__(self): return self
    def __exit__(self, *a): return False

class Task(object):
    def __init__(self, env=None):
        self.barvardim = []          # dims of PSD variables
        self.numvar = 0
        self.varbound = []           # (key, l, u)
        self.rows = []               # dict(a={j:val}, bar={j:[(symmat idx, w)]}, bound=(key,l,u))
        self.symmats = []            # (dim, {(i,j):v}) lower triangle
        self.c = {}
        self.barc = {}
        self.sense = objsense.minimize
        self.sol = None
        self.calls = []
        self.stream = None
    def _log(self, name, *args):
        rec = (name,) + tuple(args)
        self.calls.append(rec); LOG.append(rec)
    # ---- building
    def set_Stream(self, st, fn): self.stream = fn
    def appendbarvars(self, dims):
        dims = [int(d) for d in dims]
        self._log("appendbarvars", dims); self.barvardim += dims
    def appendvars(self, n):
        n = int(n); self._log("appendvars", n)
        self.varbound += [(boundkey.fx, 0.0, 0.0)] * n; self.numvar += n
    def putvarbound(self, j, key, l, u):
        (j,) = _idx([j], "putvarbound", self.numvar); self._log("putvarbound", j, key.name, float(l), float(u))
        self.varbound[j] = (key, float(l), float(u))
    def getnumcon(self): return len(self.rows)
    def getnumvar(self): return self.numvar
    def getmaxnumvar(self): return self.numvar
    def getnumbarvar(self): return len(self.barvardim)
    def appendcons(self, n):
        self._log("appendcons", int(n))
        for _ in range(int(n)): self.rows.append(dict(a={}, bar={}, bound=(boundkey.fr, 0.0, 0.0)))
    def appendsparsesymmat(self, dim, subi, subj, val):
        dim = int(dim); si = _idx(subi, "appendsparsesymmat.subi", dim); sj = _idx(subj, "appendsparsesymmat.subj", dim)
        vals = [float(v) for v in np.asarray(val, dtype=float).ravel()]
        if not (len(si) == len(sj) == len(vals)): raise Error("appendsparsesymmat: length mismatch")
        ent = {}
        for i, j, v in zip(si, sj, vals):
            if i < j: raise Error("appendsparsesymmat: entry (%d,%d) is not in the lower triangle" % (i, j))
            if (i, j) in ent: raise Error("appendsparsesymmat: duplicate entry (%d,%d)" % (i, j))
            ent[(i, j)] = v
        self.symmats.append((dim, ent)); idx = len(self.symmats) - 1
        self._log("appendsparsesymmat", dim, tuple(sorted(ent.items())), idx)
        return idx
    def _symcomb(self, j, sub, weights, what):
        (j,) = _idx([j], what + ".j", len(self.barvardim))
        sub = _idx(sub, what + ".sub", len(self.symmats)); w = [float(x) for x in weights]
        for s in sub:
            if self.symmats[s][0] != self.barvardim[j]: raise Error(what + ": dimension mismatch")
        return j, list(zip(sub, w))
    def putbaraij(self, i, j, sub, weights):
        (i,) = _idx([i], "putbaraij.i", len(self.rows)); j, comb = self._symcomb(j, sub, weights, "putbaraij")
        self._log("putbaraij", i, j, tuple(comb)); self.rows[i]["bar"][j] = comb
    def putbarcj(self, j, sub, weights):
        j, comb = self._symcomb(j, sub, weights, "putbarcj"); self._log("putbarcj", j, tuple(comb)); self.barc[j] = comb
    def putaijlist(self, subi, subj, val):
        si = _idx(subi, "putaijlist.subi", len(self.rows)); sj = _idx(subj, "putaijlist.subj", self.numvar)
        vals = [float(v) for v in np.asarray(val, dtype=float).ravel()]
        if not (len(si) == len(sj) == len(vals)): raise Error("putaijlist: length mismatch")
        self._log("putaijlist", tuple(si), tuple(sj), tuple(vals))
        for i, j, v in zip(si, sj, vals): self.rows[i]["a"][j] = v
    def putaij(self, i, j, v): self.putaijlist([i], [j], [v])
    def putconbound(self, i, key, l, u):
        (i,) = _idx([i], "putconbound", len(self.rows)); self._log("putconbound", i, key.name, float(l), float(u))
        if key == boundkey.fx and float(l) != float(u): raise Error("putconbound: fx with l != u")
        self.rows[i]["bound"] = (key, float(l), float(u))
    def putclist(self, subj, val):
        sj = _idx(subj, "putclist", self.numvar); vals = [float(v) for v in np.asarray(val, dtype=float).ravel()]
        self._log("putclist", tuple(sj), tuple(vals))
        for j, v in zip(sj, vals): self.c[j] = v
    def putcj(self, j, v): self.putclist([j], [v])
    def putobjsense(self, s): self._log("putobjsense", s.name); self.sense = s
    def solutionsummary(self, st): pass
    # ---- data view
    def dense_symmat(self, idx):
        dim, ent = self.symmats[idx]; A = np.zeros((dim, dim))
        for (i, j), v in ent.items():
            A[i, j] = v; A[j, i] = v
        return A
    def barA(self, i, j):
        d = self.barvardim[j]; A = np.zeros((d, d))
        for s, w in self.rows[i]["bar"].get(j, []): A += w * self.dense_symmat(s)
        return A
    def barC(self, j):
        d = self.barvardim[j]; A = np.zeros((d, d))
        for s, w in self.barc.get(j, []): A += w * self.dense_symmat(s)
        return A
    # ---- solving
    def optimize(self, *args, **kwargs):
        if kwargs: raise TypeError("optimize() takes no keyword arguments: %r" % (kwargs,))
        self._log("optimize")
        import cvxpy as cp
        n = self.numvar; x = cp.Variable(n) if n else None
        X = [cp.Variable((d, d), symmetric=True) for d in self.barvardim]
        cons = [Xj >> 0 for Xj in X]; rowcons = []
        for j, (key, l, u) in enumerate(self.varbound):
            if key == boundkey.fx: cons.append(x[j] == l)
            elif key == boundkey.fr: pass
            elif key == boundkey.lo: cons.append(x[j] >= l)
            elif key == boundkey.up: cons.append(x[j] <= u)
            else: cons += [x[j] >= l, x[j] <= u]
        for i, r in enumerate(self.rows):
            lhs = 0
            if r["a"]:
                a = np.zeros(n)
                for j, v in r["a"].items(): a[j] = v
                lhs = lhs + a @ x
            for j in r["bar"]:
                lhs = lhs + cp.sum(cp.multiply(self.barA(i, j), X[j]))
            key, l, u = r["bound"]
            if isinstance(lhs, int):   # empty row
                rowcons.append((i, key, None)); continue
            if key == boundkey.up: c_ = lhs <= u
            elif key == boundkey.lo: c_ = lhs >= l
            elif key == boundkey.fx: c_ = lhs == l
            elif key == boundkey.fr: c_ = None
            else: raise Error("ranged rows not supported by the stand-in")
            rowcons.append((i, key, c_))
            if c_ is not None: cons.append(c_)
        obj = 0
        cvec = np.zeros(n)
        for j, v in self.c.items(): cvec[j] = v
        if n: obj = obj + cvec @ x
        for j in self.barc: obj = obj + cp.sum(cp.multiply(self.barC(j), X[j]))
        prob = cp.Problem(cp.Maximize(obj) if self.sense == objsense.maximize else cp.Minimize(obj), cons)
        try:
            prob.solve(solver=CONFIG["solver"], **CONFIG["solver_opts"])
            status = prob.status
        except Exception as e:   # solver failure
            status = "solver_error"
        self.sol = dict(status=status)
        if status in ("optimal", "optimal_inaccurate"):
            sgn = 1.0 if self.sense == objsense.maximize else -1.0
            y = np.zeros(len(self.rows))
            for i, key, c_ in rowcons:
                if c_ is None: continue
                dv = float(np.asarray(c_.dual_value))
                if key == boundkey.up: y[i] = sgn * dv
                elif key == boundkey.lo: y[i] = -sgn * dv
                elif key == boundkey.fx: y[i] = sgn * dv
            xx = np.asarray(x.value, dtype=float) if n else np.zeros(0)
            barx = [np.asarray(Xj.value, dtype=float) for Xj in X]
            bars = []
            for j in range(len(X)):
                S = self.barC(j)
                for i in range(len(self.rows)):
                    if j in self.rows[i]["bar"]: S = S - y[i] * self.barA(i, j)
                bars.append(S)
            # ---- self-check against MOSEK's dual equations (free variables: A^T y = c ; S_j in -/+ PSD cone)
            tol = CONFIG["check_tol"] * max(1.0, np.abs(y).max() if y.size else 1.0)
            A = np.zeros((len(self.rows), n))
            for i, r in enumerate(self.rows):
                for j, v in r["a"].items(): A[i, j] = v
            free = [j for j, (key, l, u) in enumerate(self.varbound) if key == boundkey.fr]
            res = (A.T @ y - cvec)[free] if free else np.zeros(0)
            ok = (np.abs(res).max() if res.size else 0.0) <= tol
            for S in bars:
                ev = np.linalg.eigvalsh(S)
                ok = ok and ((ev.max() <= tol) if self.sense == objsense.maximize else (ev.min() >= -tol))
            self.sol.update(y=y, xx=xx, barx=barx, bars=bars, selfcheck=bool(ok), stat_res=float(np.abs(res).max() if res.size else 0.0))
            if not ok and status == "optimal":
                raise Error("stand-in self-check failed: returned duals do not satisfy MOSEK's dual equations")
            self.sol["prosta"] = prosta.prim_and_dual_feas; self.sol["solsta"] = solsta.optimal
        else:
            self.sol.update(y=np.zeros(len(self.rows)), xx=np.zeros(n), barx=[np.zeros((d, d)) for d in self.barvardim],
                            bars=[np.zeros((d, d)) for d in self.barvardim])
            self.sol["prosta"] = {"infeasible": prosta.prim_infeas, "unbounded": prosta.dual_infeas,
                                  "infeasible_inaccurate": prosta.prim_infeas, "unbounded_inaccurate": prosta.dual_infeas}.get(status, prosta.unknown)
            self.sol["solsta"] = {"infeasible": solsta.prim_infeas_cer, "unbounded": solsta.dual_infeas_cer}.get(status, solsta.unknown)
        return rescode.ok
    @staticmethod
    def _tril(M):
        n = M.shape[0]; out = []
        for j in range(n):
            for i in range(j, n): out.append(float(M[i, j]))
        return out
    def _need(self):
        if self.sol is None: raise Error("no solution available")
    def getxx(self, st): self._need(); return list(map(float, self.sol["xx"]))
    def gety(self, st): self._need(); return list(map(float, self.sol["y"]))
    def getbarxj(self, st, j): self._need(); return self._tril(self.sol["barx"][int(j)])
    def getbarsj(self, st, j): self._need(); return self._tril(self.sol["bars"][int(j)])
    def getprosta(self, st): self._need(); return self.sol["prosta"]
    def getsolsta(self, st): self._need(); return self.sol["solsta"]
    def __enter__(self): return self
    def __exit__(self, *a): return False
