"""Independent checkers for the two outputs of a solve (share no code with PEP.check_feasibility):

certificate(pep)  - C01: rebuild   objective - sum(lambda_c * expr_c) + <R, Gram> + sum_k <S_k, T_k>
                    through mc.refalg; every non-constant coefficient must vanish, lambda >= 0 on inequalities,
                    R and S_k PSD, and the constant is the dual bound.
instance(pep)     - C02: leaf point values reproduce the PSD projection of G_value, every sent constraint / LMI holds at
                    eval() values, every held object evaluates to the reference combination of the leaves' values.
"""
import numpy as np

from mc import refalg as R


def functionals_of_model(pep):
    from PEPit.point import Point
    from PEPit.expression import Expression
    return Point.counter, Expression.counter


def certificate(pep, constraints=None, psds=None):
    """Returns dict(const, resid, resid_where, lam_min, psd_min, scale, asym_pairs, resid_after_asym)."""
    from PEPit.point import Point
    from PEPit.expression import Expression
    nP, nF = Point.counter, Expression.counter
    cons = pep._list_of_constraints_sent_to_wrapper if constraints is None else constraints
    psds = pep._list_of_psd_sent_to_wrapper if psds is None else psds
    G, F, c = R.functional(pep.objective, nP, nF)
    Rm = np.array(pep.residual, dtype=float)
    G = G + (Rm + Rm.T) / 2
    lam_min = 0.0
    scale = 1.0
    for con in cons:
        lam = float(con.eval_dual())
        g, f, cc = R.functional(con.expression, nP, nF)
        G = G - lam * g
        F = F - lam * f
        c = c - lam * cc
        mag = max(np.abs(g).max() if g.size else 0.0, np.abs(f).max() if f.size else 0.0, abs(cc))
        scale = max(scale, abs(lam) * mag)
        if con.equality_or_inequality == "inequality":
            lam_min = min(lam_min, lam)
    psd_min = min(0.0, float(np.linalg.eigvalsh((Rm + Rm.T) / 2).min())) if Rm.size else 0.0
    sym_err = float(np.abs(Rm - Rm.T).max()) if Rm.size else 0.0
    cols = []
    for M in psds:
        S = np.array(M.eval_dual(), dtype=float)
        n = M.shape[0]
        if n:
            psd_min = min(psd_min, float(np.linalg.eigvalsh((S + S.T) / 2).min()))
            sym_err = max(sym_err, float(np.abs(S - S.T).max()))
        ent = [[R.functional(M[i, j], nP, nF) for j in range(n)] for i in range(n)]
        for i in range(n):
            for j in range(n):
                g, f, cc = ent[i][j]
                G = G + S[i, j] * g
                F = F + S[i, j] * f
                c = c + S[i, j] * cc
                scale = max(scale, abs(S[i, j]) * max(np.abs(g).max() if g.size else 0, np.abs(f).max() if f.size else 0, abs(cc)))
        # entry pairs written differently: the only place where an antisymmetric correction could hide
        for i in range(n):
            for j in range(i):
                dg = ent[i][j][0] - ent[j][i][0]
                df = ent[i][j][1] - ent[j][i][1]
                dc = ent[i][j][2] - ent[j][i][2]
                if (dg.size and np.abs(dg).max() > 1e-12) or (df.size and np.abs(df).max() > 1e-12) or abs(dc) > 1e-12:
                    cols.append(np.concatenate([dg.ravel(), df, [dc]]))
    r = np.concatenate([G.ravel(), F])
    resid = float(np.abs(r).max()) if r.size else 0.0
    out = dict(const=float(c), resid=resid, lam_min=float(lam_min), psd_min=float(psd_min), scale=float(scale),
               sym_err=sym_err, asym_pairs=len(cols), resid_after_asym=resid)
    if cols:
        # explanation predicate of the known finding "LMI not symmetric as written": does the identity close once
        # antisymmetric corrections are allowed on exactly those entry pairs (constant row excluded from the fit,
        # included in the reported constant shift)?
        A = np.array(cols).T
        k, *_ = np.linalg.lstsq(A[:-1], -r, rcond=None)
        out["resid_after_asym"] = float(np.abs(r + A[:-1] @ k).max())
    return out


def psd_factor(G_value):
    ev, V = np.linalg.eigh((G_value + G_value.T) / 2)
    ev = np.maximum(ev, 0)
    return (V * ev) @ V.T


def instance(pep, held=(), tol=1e-6, solver_G=None, solver_F=None):
    """Checks the primal instance; returns a list of (key, message).
    solver_G / solver_F: the primal solution as read from the solver object itself (independent of pep.G_value)."""
    from PEPit.point import Point
    from PEPit.expression import Expression
    from PEPit.constraint import Constraint
    from PEPit.psd_matrix import PSDMatrix
    probs = []
    Gv, Fv = np.array(pep.G_value, dtype=float), np.array(pep.F_value, dtype=float)
    nP = Point.counter
    scale = max(1.0, float(np.abs(Gv).max()) if Gv.size else 1.0, float(np.abs(Fv).max()) if Fv.size else 1.0)
    t = tol * scale
    if solver_G is not None:
        sg = np.array(solver_G, dtype=float)
        if sg.shape != Gv.shape or np.abs(sg - Gv).max(initial=0.0) > t:
            probs.append(("instance:not-solver-gram", "PEP.G_value differs from the Gram matrix found by the solver by %.2e"
                          % (np.abs(sg - Gv).max(initial=0.0) if sg.shape == Gv.shape else float("nan"))))
    if solver_F is not None:
        sf = np.array(solver_F, dtype=float)
        k = min(len(sf), len(Fv))
        if k and np.abs(sf[:k] - Fv[:k]).max() > t:
            probs.append(("instance:not-solver-fvalues", "PEP.F_value differs from the function values found by the solver"))
    # leaf points reproduce the PSD projection of the Gram matrix
    try:
        P = np.array([pt.eval() for pt in Point.list_of_leaf_points]).T if nP else np.zeros((0, 0))
    except Exception as e:
        return [("instance:leaf-eval-raised", "evaluating a leaf point raised %s: %s" % (type(e).__name__, e))]
    if nP:
        Gp = psd_factor(Gv)
        err = float(np.abs(P.T @ P - Gp).max())
        # factorising the PSD projection is pure linear algebra: its accuracy does not depend on the solver's
        if err > 1e-9 * scale:
            probs.append(("instance:gram", "inner products of the evaluated leaf points differ from the PSD projection "
                                           "of the Gram matrix by %.2e" % err))
    Gpts = P.T @ P if nP else np.zeros((0, 0))
    for ex in Expression.list_of_leaf_expressions:
        if abs(float(ex.eval()) - Fv[ex.counter]) > t:
            probs.append(("instance:fvalue", "leaf expression %d evaluates to %r, F_value has %r" % (ex.counter, ex.eval(), Fv[ex.counter])))
            break
    # a constraint's value: reference functional on the projected Gram / F (what eval() must return)
    def refval(expr):
        return R.evaluate(expr, Gpts, Fv)
    # every sent constraint holds and evaluates consistently
    viol = 0.0
    for con in pep._list_of_constraints_sent_to_wrapper:
        v = float(con.eval())
        rv = refval(con.expression)
        if abs(v - rv) > 10 * t:
            probs.append(("instance:constraint-eval", "a sent constraint evaluates to %.6g, reference %.6g" % (v, rv)))
            break
        viol = max(viol, v if con.equality_or_inequality == "inequality" else abs(v))
    if viol > 50 * t:
        probs.append(("instance:constraint-violated", "a sent constraint is violated by %.2e at the returned instance" % viol))
    for M in pep._list_of_psd_sent_to_wrapper:
        if M.shape[0] == 0:
            continue
        V = np.array(M.eval(), dtype=float)
        n = M.shape[0]
        Vr = np.array([[refval(M[i, j]) for j in range(n)] for i in range(n)])
        if np.abs(V - Vr).max() > 10 * t:
            probs.append(("instance:lmi-eval", "an LMI evaluates differently from its entries' reference values"))
        if np.abs(V - V.T).max() > 50 * t:
            probs.append(("instance:lmi-asym", "a sent LMI is not symmetric at the returned instance (%.2e)" % np.abs(V - V.T).max()))
        mn = float(np.linalg.eigvalsh((V + V.T) / 2).min())
        if mn < -50 * t:
            probs.append(("instance:lmi-violated", "a sent LMI has eigenvalue %.2e at the returned instance" % mn))
    # objective = smallest metric
    if pep.list_of_performance_metrics:
        mets = [float(m.eval()) for m in pep.list_of_performance_metrics]
        obj = float(pep.objective.eval())
        if abs(obj - min(mets)) > 50 * t:
            probs.append(("instance:objective", "objective %.8g is not the smallest metric %.8g" % (obj, min(mets))))
    # held objects evaluate to the reference combination of the leaves
    for name, obj in held:
        try:
            if isinstance(obj, Point):
                v = np.array(obj.eval(), dtype=float)
                rv = R.evaluate_point(obj, P) if nP else np.zeros(0)
                bad = v.shape != rv.shape or (v.size and np.abs(v - rv).max() > 10 * t)
            elif isinstance(obj, Expression):
                bad = abs(float(obj.eval()) - refval(obj)) > 10 * t
            elif isinstance(obj, Constraint):
                bad = abs(float(obj.eval()) - refval(obj.expression)) > 10 * t
            elif isinstance(obj, PSDMatrix):
                n = obj.shape[0]
                bad = np.abs(np.array(obj.eval(), dtype=float) - np.array([[refval(obj[i, j]) for j in range(n)] for i in range(n)])).max() > 10 * t
            else:
                continue
        except Exception as e:
            probs.append(("instance:held-raised", "evaluating %s raised %s: %s" % (name, type(e).__name__, e)))
            continue
        if bad:
            probs.append(("instance:held", "held object %s does not evaluate to the combination of its operands' values" % name))
    # evaluating objects must not disturb the leaves: evaluate the leaves again
    if nP:
        P2 = np.array([pt.eval() for pt in Point.list_of_leaf_points]).T
        if P2.shape != P.shape or np.abs(P2 - P).max(initial=0.0) > 0:
            probs.append(("instance:leaves-changed-by-eval", "evaluating derived objects changed the values of leaf points"))
    return probs


def wrapper_duals(pep, tol=1e-9):
    """The wrapper's documented accessor get_dual_variables() must report, for the constraint list it was sent, the very
    multipliers that are attached to the constraints / LMIs (and the residual the PEP exposes) - whatever was solved last."""
    from PEPit.constraint import Constraint
    probs = []
    w = pep.wrapper
    try:
        dv, res = w.get_dual_variables()
    except Exception as e:
        return [("wrapper-duals:raised:%s" % type(e).__name__, str(e)[:120])]
    sent = list(w._list_of_constraints_sent_to_solver)
    if len(dv) != len(sent) + 1:
        return [("wrapper-duals:length", "%d dual values reported for %d constraints sent (+ the Gram constraint)" % (len(dv), len(sent)))]
    worst = 0.0
    for obj, val in zip(sent, dv[1:]):
        try:
            att = obj.eval_dual()
        except Exception:
            continue
        worst = max(worst, float(np.abs(np.asarray(att, float) - np.asarray(val, float)).max(initial=0.0)))
    if worst > tol:
        probs.append(("wrapper-duals:differ", "get_dual_variables() differs from the multipliers attached to the constraints by %.3g" % worst))
    if pep.residual is not None and res is not None:
        dres = float(np.abs(np.asarray(res, float) - np.asarray(pep.residual, float)).max(initial=0.0))
        if dres > tol:
            probs.append(("wrapper-duals:residual-differs", "the wrapper's residual differs from PEP.residual by %.3g" % dres))
    return probs
