"""Reference algebra: an independent, deliberately boring model of what PEPit objects denote.

A *point* is a sparse vector over leaf points; an *expression* is a triple
(symmetric bilinear form over unordered leaf-point pairs, linear form over leaf expressions, constant).
Two objects have the same canonical form iff they take the same value under EVERY assignment of vectors to leaf
points and numbers to leaf expressions (the monomials <p_i,p_j>, e_k, 1 are linearly independent functions as soon
as the dimension is >= the number of leaves), so comparing canonical forms decides "for every assignment"
exhaustively, without sampling assignments.

This module is the only place of the harness that interprets PEPit's ``decomposition_dict``s.  It does not call
anything in ``PEPit.tools``.  Arithmetic is exact (``fractions.Fraction``; ``Fraction(float)`` is exact) when
``exact=True`` and float otherwise.
"""
from fractions import Fraction
import numpy as np

from PEPit.point import Point
from PEPit.expression import Expression


def _num(v, exact):
    if exact:
        if isinstance(v, Fraction):
            return v
        if isinstance(v, (bool,)):
            return Fraction(int(v))
        if isinstance(v, (int, np.integer)):
            return Fraction(int(v))
        return Fraction(float(v))
    return float(v)


# ---------------------------------------------------------------------------------------------------------------
# canonical forms: plain dicts with identity-free keys
#   point      : {leaf_point_key: coeff}
#   expression : {('G', a, b) with a <= b : coeff, ('F', k): coeff, ('1',): coeff}
# The key of a leaf is given by ``keyfn`` (default: its ``counter``; harnesses that name objects pass a map).
# ---------------------------------------------------------------------------------------------------------------

def _pkey(p, keyfn):
    return keyfn(p) if keyfn is not None else p.counter


def of_point(obj, exact=True, keyfn=None):
    """Canonical sparse vector of a PEPit Point, read from its decomposition_dict."""
    assert isinstance(obj, Point), type(obj)
    out = {}
    for leaf, w in obj.decomposition_dict.items():
        assert isinstance(leaf, Point) and leaf.get_is_leaf(), "point decomposition over a non-leaf"
        k = _pkey(leaf, keyfn)
        out[k] = out.get(k, 0) + _num(w, exact)
    return {k: v for k, v in out.items() if v != 0}


def of_expression(obj, exact=True, keyfn=None, ekeyfn=None):
    """Canonical (bilinear, linear, constant) form of a PEPit Expression."""
    assert isinstance(obj, Expression), type(obj)
    out = {}
    if obj.get_is_leaf():
        k = ('F', ekeyfn(obj) if ekeyfn is not None else obj.counter)
        return {k: _num(1, exact)}
    for key, w in obj.decomposition_dict.items():
        if isinstance(key, tuple):
            a, b = key
            assert isinstance(a, Point) and isinstance(b, Point) and a.get_is_leaf() and b.get_is_leaf()
            ka, kb = _pkey(a, keyfn), _pkey(b, keyfn)
            if _sortkey(kb) < _sortkey(ka):
                ka, kb = kb, ka
            k = ('G', ka, kb)
        elif isinstance(key, Expression):
            assert key.get_is_leaf()
            k = ('F', ekeyfn(key) if ekeyfn is not None else key.counter)
        elif isinstance(key, (int, float)) and key == 1:
            k = ('1',)
        else:
            raise TypeError("unexpected key in an expression decomposition: %r" % (key,))
        out[k] = out.get(k, 0) + _num(w, exact)
    return {k: v for k, v in out.items() if v != 0}


def _sortkey(k):
    return (str(type(k).__name__), k) if not isinstance(k, tuple) else ('tuple', k)


# ---- reference operations on canonical forms -------------------------------------------------------------------

def lin(terms, exact=True):
    """sum_i w_i * d_i for canonical dicts d_i."""
    out = {}
    for w, d in terms:
        w = _num(w, exact)
        for k, v in d.items():
            out[k] = out.get(k, 0) + w * v
    return {k: v for k, v in out.items() if v != 0}


def add(d1, d2, exact=True):
    return lin([(1, d1), (1, d2)], exact)


def sub(d1, d2, exact=True):
    return lin([(1, d1), (-1, d2)], exact)


def scale(s, d, exact=True):
    return lin([(s, d)], exact)


def const(c, exact=True):
    c = _num(c, exact)
    return {('1',): c} if c != 0 else {}


def inner(p1, p2, exact=True):
    """<p1, p2> of two canonical points, as a canonical expression."""
    out = {}
    for a, va in p1.items():
        for b, vb in p2.items():
            ka, kb = (a, b) if _sortkey(a) <= _sortkey(b) else (b, a)
            k = ('G', ka, kb)
            out[k] = out.get(k, 0) + va * vb
    return {k: v for k, v in out.items() if v != 0}


def close(d1, d2, tol=0.0):
    """Equality of canonical forms (exact when tol == 0)."""
    for k in set(d1) | set(d2):
        if abs(d1.get(k, 0) - d2.get(k, 0)) > tol:
            return False
    return True


def freeze(d):
    """Hashable, order-free form of a canonical dict."""
    return tuple(sorted(((k, v) for k, v in d.items()), key=lambda kv: repr(kv[0])))


def to_jsonable(d):
    return {repr(k): (str(v) if isinstance(v, Fraction) else v) for k, v in sorted(d.items(), key=lambda kv: repr(kv[0]))}


# ---- functionals: what the solver must receive ----------------------------------------------------------------

def functional(expr, nP=None, nF=None):
    """Dense (G symmetric matrix, F vector, constant) such that value = <G, Gram> + F.Fvals + constant (floats)."""
    nP = Point.counter if nP is None else nP
    nF = Expression.counter if nF is None else nF
    G = np.zeros((nP, nP))
    F = np.zeros(nF)
    c = 0.0
    for k, v in of_expression(expr, exact=False).items():
        if k[0] == 'G':
            i, j = k[1], k[2]
            if i == j:
                G[i, i] += v
            else:
                G[i, j] += v / 2
                G[j, i] += v / 2
        elif k[0] == 'F':
            F[k[1]] += v
        else:
            c += v
    return G, F, c


def functional_vec(expr, nP=None, nF=None):
    """Same functional flattened: upper-triangular coefficients of G (c_ij multiplies G_ij once for i<j, i.e. the
    coefficient of the monomial <p_i,p_j>), then F, then the constant."""
    nP = Point.counter if nP is None else nP
    nF = Expression.counter if nF is None else nF
    iu = np.triu_indices(nP)
    G, F, c = functional(expr, nP, nF)
    Gm = G + G.T - np.diag(np.diag(G))     # coefficient of monomial <pi,pj>, i<=j
    return np.concatenate([Gm[iu], F, [c]])


def evaluate(expr, G_value, F_value):
    """Value of an expression on a Gram matrix and function-value vector, through the reference functional."""
    G, F, c = functional(expr, G_value.shape[0], len(F_value))
    return float(np.sum(G * G_value) + (F @ F_value if len(F_value) else 0.0) + c)


def evaluate_point(pt, points_values):
    """Value of a point given the matrix whose columns are the leaf points' coordinates."""
    out = np.zeros(points_values.shape[0])
    for k, v in of_point(pt, exact=False).items():
        out = out + v * points_values[:, k]
    return out
