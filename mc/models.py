"""Finite typed model grammar (DESIGN.md section 3.4): JSON-able model specs -> real PEPit models.

    spec = dict(cls=<class name>, par=<index of the parameter tuple>, pattern=..., comp=..., algo=[...],
                init=..., metric=..., extras=[...])

`build(spec)` creates a fresh PEP() and returns a Ctx holding the problem and every named object, so that checks can
evaluate / observe them after a solve.  `enumerate_specs(tier)` enumerates the grammar completely within the tier's
bound (no sampling).  Unbounded / infeasible combinations are produced on purpose by `init='none'` and the extra
`contradiction`; they feed C16.
"""
import itertools

import numpy as np

INF = float("inf")

# class name -> dict(kind, params [list of kwargs], step (natural bounded algorithm), metrics allowed)
CLASSES = {
    # ---- functions
    "ConvexFunction": dict(kind="f", params=[{}], step="prox", metrics=["dist", "fval"]),
    "StronglyConvexFunction": dict(kind="f", params=[{"mu": 0.1}, {"mu": 1.0}], step="prox", metrics=["dist", "fval"]),
    "SmoothFunction": dict(kind="f", params=[{"L": 1.0}, {"L": 2.0}], step="gd", metrics=["grad", "dist", "fval"]),
    "SmoothConvexFunction": dict(kind="f", params=[{"L": 1.0}, {"L": 2.0}], step="gd", metrics=["fval", "dist", "grad"]),
    "SmoothStronglyConvexFunction": dict(kind="f", params=[{"mu": 0.1, "L": 1.0}, {"mu": 0.5, "L": 2.0}, {"mu": 0.0, "L": 1.0}, {"mu": 0.75, "L": 1.0}],
                                         step="gd", metrics=["dist", "fval", "grad"]),
    "ConvexLipschitzFunction": dict(kind="f", params=[{"M": 1.0}, {"M": 2.0}], step="subgrad", metrics=["dist"]),
    "SmoothConvexLipschitzFunction": dict(kind="f", params=[{"L": 1.0, "M": 1.0}, {"L": 2.0, "M": 0.5}, {"L": 1.0, "M": 3.0}], step="gd",
                                          metrics=["fval", "dist", "grad"]),
    "ConvexQGFunction": dict(kind="f", params=[{"L": 1.0}, {"L": 2.0}], step="gd", metrics=["fval"]),
    "RsiEbFunction": dict(kind="f", params=[{"mu": 0.1, "L": 1.0}, {"mu": 0.5, "L": 1.0}, {"mu": 0.5, "L": 2.0}], step="gd_rsi", metrics=["dist"]),
    "ConvexIndicatorFunction": dict(kind="f", params=[{"D": INF}, {"D": 1.0}, {"D": 2.0}], step="prox", metrics=["dist"]),
    "ConvexSupportFunction": dict(kind="f", params=[{"M": INF}, {"M": 1.0}, {"M": 2.0}], step="prox", metrics=["dist", "fval"]),
    "BlockSmoothConvexFunction": dict(kind="f", params=[{"L": [1.0, 2.0]}, {"L": [1.0]}, {"L": [1.0, 2.0, 4.0]}, {"L": [1.0, 1.0]}], step="block",
                                      metrics=["fval", "dist"]),
    "SmoothStronglyConvexQuadraticFunction": dict(kind="f", params=[{"mu": 0.1, "L": 1.0}, {"mu": 0.0, "L": 2.0}], step="gd",
                                                  metrics=["fval", "dist", "grad"]),
    # ---- operators
    "CocoerciveOperator": dict(kind="o", params=[{"beta": 1.0}, {"beta": 0.5}], step="gd_beta", metrics=["dist", "grad"]),
    "CocoerciveStronglyMonotoneOperator": dict(kind="o", params=[{"mu": 0.1, "beta": 1.0}, {"mu": 0.5, "beta": 0.5}],
                                               step="gd_beta", metrics=["dist", "grad"]),
    "LinearOperator": dict(kind="lin", params=[{"L": 1.0}, {"L": 2.0}], step="lin", metrics=["grad"]),
    "LipschitzOperator": dict(kind="o", params=[{"L": 1.0}, {"L": 0.5}], step="gd", metrics=["dist", "grad"]),
    "LipschitzStronglyMonotoneOperator": dict(kind="o", params=[{"mu": 0.1, "L": 1.0}, {"mu": 0.5, "L": 2.0}], step="gd",
                                              metrics=["dist", "grad"]),
    "MonotoneOperator": dict(kind="o", params=[{}], step="prox", metrics=["dist", "grad"]),
    "NegativelyComonotoneOperator": dict(kind="o", params=[{"rho": 0.25}, {"rho": 0.1}], step="prox", metrics=["dist", "grad"]),
    "NonexpansiveOperator": dict(kind="fix", params=[{}], step="km", metrics=["dist", "grad"]),
    "SkewSymmetricLinearOperator": dict(kind="lin0", params=[{"L": 1.0}, {"L": 2.0}], step="gd0", metrics=["dist", "grad"]),
    "StronglyMonotoneOperator": dict(kind="o", params=[{"mu": 0.1}, {"mu": 1.0}], step="prox", metrics=["dist", "grad"]),
    "SymmetricLinearOperator": dict(kind="lin0", params=[{"mu": 0.1, "L": 1.0}, {"mu": -1.0, "L": 1.0}, {"mu": 0.5, "L": 2.0}], step="gd0",
                                    metrics=["dist", "grad"]),
}
CLASS_NAMES = list(CLASSES)

EXTRAS = ["named_ineq", "user_eq", "lmi_sym", "lmi_nonsym", "lmi_two", "lmi_unsent", "lmi_cross", "lmi_band", "lmi_ndarray_reused", "partition1", "partition2",
          "fn_constraint", "fn_lmi", "fn_lmi_two", "noise", "unused_lmi_class", "same_constraint_twice", "const_metric", "two_metrics", "two_metrics_low", "second_function", "dup_eval", "one_sample_functions"]


class Ctx(object):
    def __init__(self):
        self.pep = None
        self.funcs = {}
        self.points = {}
        self.exprs = {}
        self.constraints = {}
        self.lmis = {}
        self.partition = None
        self.metrics = []
        self.spec = None
        self.notes = []


def get_class(name):
    import PEPit.functions as F
    import PEPit.operators as O
    return getattr(F, name, None) or getattr(O, name)


def _step_size(spec, par):
    cls = spec["cls"]
    step = spec.get("step") or CLASSES[cls]["step"]
    if step == "gd_rsi":
        return par["mu"] / par["L"] ** 2
    if step == "gd_beta":
        return par["beta"]
    if "L" in par and not isinstance(par["L"], list) and par["L"] not in (0, INF):
        return 1.0 / par["L"]
    return 1.0


def build(spec):
    """Build the model described by `spec` on a fresh PEP (not solved)."""
    from PEPit import PEP, Point, Expression
    from PEPit.primitive_steps import (proximal_step, inexact_gradient_step, exact_linesearch_step,
                                       epsilon_subgradient_step, inexact_proximal_step)
    from PEPit.functions import ConvexFunction, SmoothStronglyConvexFunction
    c = Ctx()
    c.spec = spec
    cls = spec["cls"]
    info = CLASSES[cls]
    par = dict(info["params"][spec.get("par", 0)])
    pattern = spec.get("pattern", "sf")
    extras = list(spec.get("extras", []))
    p = c.pep = PEP()
    kind = info["kind"]
    kw = dict(par)
    if cls == "BlockSmoothConvexFunction":
        c.partition = p.declare_block_partition(d=len(par["L"]))
        kw["partition"] = c.partition
    if spec.get("fname"):
        kw["name"] = spec["fname"]
    f = p.declare_function(get_class(cls), **kw)
    c.funcs["f"] = f
    target = f          # the function whose stationary point / oracle drives the algorithm
    comp = spec.get("comp")
    if comp:
        h = p.declare_function(ConvexFunction)
        c.funcs["h"] = h
        if comp == "sum":
            target = f + h
        elif comp == "zero":
            target = f + 0 * h
        elif comp == "cancel":
            target = f + h - h
        elif comp == "weighted":
            target = 2 * f + 0.5 * h
        c.funcs["F"] = target
    named = bool(spec.get("named"))

    def stat(tag):
        if kind == "fix":
            xs, _, _ = target.fixed_point()
            return xs
        return target.stationary_point(name=("xs" + tag) if named else None)

    xs = None
    quad = cls == "SmoothStronglyConvexQuadraticFunction"
    needs_opt = kind in ("f", "o", "fix")
    if needs_opt and pattern in ("sf", "two"):
        xs = stat("")
    x0 = p.set_initial_point(name="x0" if named else None)
    c.points["x0"] = x0
    gamma = spec.get("gamma", _step_size(spec, par))
    step = spec.get("step") or info["step"]
    nsteps = spec.get("n", 1)
    x = x0
    g0 = None
    for it in range(nsteps):
        if step in ("gd", "gd_rsi", "gd_beta", "gd0", "subgrad"):
            g = target.gradient(x)
            if it == 0:
                g0 = g
            x = x - gamma * g
        elif step == "prox":
            x, g, _ = proximal_step(x, target, gamma)
            if it == 0:
                g0 = g
        elif step == "km":
            g = target.gradient(x)      # A x
            if it == 0:
                g0 = x - g              # residual x - Ax
            x = 0.5 * x + 0.5 * g
        elif step == "block":
            g = target.gradient(x)
            if it == 0:
                g0 = g
            blk = it % c.partition.get_nb_blocks()
            x = x - (1.0 / par["L"][blk]) * c.partition.get_block(g, blk)
        elif step == "lin":
            y = f.gradient(x)
            z = f.T.gradient(y)
            g0 = z
            x = z
        elif step == "lin_A":
            y = f.gradient(x)            # the adjoint is never evaluated
            g0 = y
            x = y
        elif step == "inexact_abs":
            x, d, _ = inexact_gradient_step(x, target, gamma, 0.1, notion="absolute")
            g0 = g0 or d
        elif step == "inexact_rel":
            x, d, _ = inexact_gradient_step(x, target, gamma, 0.1, notion="relative")
            g0 = g0 or d
        elif step == "els":
            gx = target.gradient(x)
            x, _, _ = exact_linesearch_step(x, target, [gx])
            g0 = g0 or gx
        elif step == "eps_sub":
            x, gg, _, eps = epsilon_subgradient_step(x, target, gamma)
            p.add_constraint(eps <= 0.1)
            g0 = g0 or gg
        elif step in ("iprox1", "iprox2", "iprox3"):
            opt = {"iprox1": "PD_gapI", "iprox2": "PD_gapII", "iprox3": "PD_gapIII"}[step]
            x, gx, _, _, _, _, eps = inexact_proximal_step(x, target, gamma, opt=opt)
            p.add_constraint(eps <= 0.01)
            g0 = g0 or gx
        else:
            raise KeyError(step)
    c.points["xn"] = x
    if needs_opt and pattern == "sl":
        xs = stat("")
    if needs_opt and pattern == "two":
        c.points["xs2"] = stat("2")
    if needs_opt and pattern == "none" and kind == "f" and cls in ("ConvexQGFunction", "RsiEbFunction"):
        xs = None       # the class creates its own stationary point at solve time
    c.points["xs"] = xs
    ref = xs if xs is not None else None
    d0 = (x0 - ref) ** 2 if ref is not None else x0 ** 2
    dn = (x - ref) ** 2 if ref is not None else x ** 2
    c.exprs["d0"], c.exprs["dn"] = d0, dn
    has_values = kind == "f"
    # ---- initial condition
    init = spec.get("init", "dist")
    if init == "dist":
        p.set_initial_condition(d0 <= 1, name="init" if named else None)
    elif init == "dist_eq":
        p.set_initial_condition(d0 == 1)
    elif init == "dist2":
        p.set_initial_condition(d0 <= 4)
    elif init == "dist1e6":
        p.set_initial_condition(d0 <= 1e6)      # badly scaled on purpose: constant of order 1e6
    elif init == "dist1000":
        p.set_initial_condition(d0 <= 1000)
    elif init == "dist100":
        p.set_initial_condition(d0 <= 100)      # a model that is not normalised: optimum of order 100
    elif init == "fval" and has_values and ref is not None:
        p.set_initial_condition(target(x0) - target(ref) <= 1)
    elif init == "none":
        pass
    else:
        p.set_initial_condition(d0 <= 1)
    c.constraints["init"] = p.list_of_constraints[-1] if p.list_of_constraints else None
    # ---- metric
    metric = spec.get("metric") or info["metrics"][0]
    if metric == "dist":
        m = dn
    elif metric == "fval" and has_values and ref is not None:
        m = target(x) - target(ref)
    elif metric == "negdist":
        m = -dn + 0.5 * d0          # bounded above whatever the class: used when no optimum is declared
    elif metric == "grad":
        gl = target.gradient(x) if kind in ("f", "o", "lin0") else (x - target.gradient(x) if kind == "fix" else g0)
        m = gl ** 2
    else:
        m = dn
    c.metrics.append(m)
    p.set_performance_metric(m)
    # ---- extras
    for ex in extras:
        if ex == "named_ineq":
            con = (dn <= 3 * d0 + 0.5)
            p.add_constraint(con, name="user_ineq")
            c.constraints["named_ineq"] = con
        elif ex == "user_eq":
            con = (x0 * x0 == 0.75) if ref is None else ((x0 - ref) * (x0 - ref) == 0.75)
            p.add_constraint(con)
            c.constraints["user_eq"] = con
        elif ex == "lmi_sym":
            e = Expression()
            c.exprs["e_lmi"] = e
            c.lmis["lmi_sym"] = p.add_psd_matrix([[dn, e], [e, 1]])
            p.set_performance_metric(e + 0.25)
        elif ex == "lmi_nonsym":
            e, e2 = Expression(), Expression()
            c.exprs["e_lmi"], c.exprs["e_lmi2"] = e, e2
            c.lmis["lmi_nonsym"] = p.add_psd_matrix([[dn, e], [e2, 1]])
            p.set_performance_metric(e + 0.25)
        elif ex == "lmi_two":
            from PEPit import PSDMatrix
            e, e3 = Expression(), Expression()
            c.exprs["e_lmi"], c.exprs["e_lmi3"] = e, e3
            m1 = PSDMatrix([[dn, e], [e, 1]])
            m2 = PSDMatrix([[d0, e3, 0], [e3, 2, 0], [0, 0, 1]])
            # sent in reverse creation order
            c.lmis["lmi_b"] = p.add_psd_matrix(m2)
            c.lmis["lmi_a"] = p.add_psd_matrix(m1)
            p.set_performance_metric(e + e3)
        elif ex == "lmi_unsent":
            from PEPit import PSDMatrix
            e = Expression()
            c.exprs["e_lmi"] = e
            c.lmis["_unsent"] = PSDMatrix([[d0, 1], [1, 5]])      # created, never added
            c.lmis["lmi_sym"] = p.add_psd_matrix([[dn, e], [e, 1]])
            p.set_performance_metric(e + 0.25)
        elif ex == "lmi_band":
            # an ACTIVE banded (not block-diagonal) LMI with a structural zero: t^2 <= dn (1 - u^2); metric t + u
            t_, u_ = Expression(), Expression()
            c.exprs["e_lmi"], c.exprs["e_band_u"] = t_, u_
            c.lmis["lmi_band"] = p.add_psd_matrix([[dn, t_, 0], [t_, 1, u_], [0, u_, 1]])
            p.set_performance_metric(t_ + u_)
        elif ex == "lmi_ndarray_reused":
            # two LMIs declared from ONE numpy work array that is refilled between the two declarations
            e1_, e2_ = Expression(), Expression()
            c.exprs["e_lmi"], c.exprs["e_buf2"] = e1_, e2_
            buf = np.empty((2, 2), dtype=object)
            first = [[dn, e1_], [e1_, 1]]
            second = [[d0 + 1, e2_], [e2_, 2]]
            for i_ in range(2):
                for j_ in range(2):
                    buf[i_, j_] = first[i_][j_]
            c.lmis["lmi_buf1"] = p.add_psd_matrix(buf)
            for i_ in range(2):
                for j_ in range(2):
                    buf[i_, j_] = second[i_][j_]
            c.lmis["lmi_buf2"] = p.add_psd_matrix(buf)
            c.__dict__.setdefault("declared_lmis", {}).update(lmi_buf1=first, lmi_buf2=second)
            p.set_performance_metric(e1_ + 0.25)
            p.add_constraint(e2_ <= 1)
        elif ex == "many_points":
            # more than 64 leaf points (each bounded, each tied to x0 by a cross inner product)
            from PEPit import Point as _Pt
            for k_ in range(66):
                z_ = _Pt()
                c.points["many_%d" % k_] = z_
                p.add_constraint((z_ - x0) ** 2 <= 1 + 0.01 * k_)
        elif ex == "lmi_cross":
            # a redundant Cauchy-Schwarz LMI whose off-diagonal entry is made of inner products of DIFFERENT leaf points
            a = x0 if ref is None else x0 - ref
            b = g0 if g0 is not None else x
            c.lmis["lmi_cross"] = p.add_psd_matrix([[a ** 2, a * b], [a * b, b ** 2]])
        elif ex in ("partition1", "partition2"):
            d = 1 if ex == "partition1" else 2
            part = p.declare_block_partition(d=d)
            c.exprs["blocks"] = [part.get_block(x0, k) for k in range(d)]
            c.partition2 = part
        elif ex == "partition_user_con":
            # a constraint of the user's own attached to a block partition (public BlockPartition.add_constraint), tighter
            # than the initial condition and therefore active: it is sent, gets a multiplier, and belongs to the certificate
            part = p.declare_block_partition(d=2)
            c.exprs["blocks"] = [part.get_block(x0, k) for k in range(2)]
            c.partition2 = part
            con = (d0 <= 0.5)
            part.add_constraint(con)
            c.constraints["partition_user_con"] = con
        elif ex == "tiny_active":
            # an ACTIVE constraint all of whose coefficients (constant included) are tiny: d0 <= 0.5 written at scale 1e-4
            con = (1e-4 * d0 <= 0.5e-4)
            p.add_constraint(con)
            c.constraints["tiny_active"] = con
        elif ex == "fn_constraint":
            con = (g0 ** 2 <= 2.0) if g0 is not None else (d0 <= 2)
            f.add_constraint(con, name="fn_con")
            c.constraints["fn_constraint"] = con
        elif ex == "fn_lmi":
            e = Expression()
            c.exprs["e_fn"] = e
            f.add_psd_matrix([[d0 + 1, e], [e, 1]])
            c.lmis["fn_lmi"] = f.list_of_psd[-1]
            p.add_constraint(e <= 2)
        elif ex == "fn_lmi_two":
            # two LMIs (with constant entries) attached to the same function
            e, e4 = Expression(), Expression()
            c.exprs["e_fn"], c.exprs["e_fn4"] = e, e4
            f.add_psd_matrix([[d0 + 1, e], [e, 1]])
            f.add_psd_matrix([[dn + 2, e4, 0], [e4, 3, 1], [0, 1, 1]])
            c.lmis["fn_lmi_a"], c.lmis["fn_lmi_b"] = f.list_of_psd[-2], f.list_of_psd[-1]
            p.add_constraint(e <= 2)
            p.set_performance_metric(m + e4)
        elif ex == "noise":
            # a small additive perturbation orthogonal to everything else: a genuinely small non-zero eigenvalue
            z = Point()
            c.points["noise"] = z
            p.add_constraint(z ** 2 == 1e-4)
            p.add_constraint(z * x0 == 0)
            p.add_constraint(z * x == 0)
            p.set_performance_metric(m + (x + z) ** 2 - x ** 2)
        elif ex == "unused_lmi_class":
            # a class with a class LMI that is declared and never evaluated
            from PEPit.operators import SymmetricLinearOperator
            c.funcs["unused"] = p.declare_function(SymmetricLinearOperator, mu=0.0, L=1.0)
        elif ex == "same_constraint_twice":
            # one Constraint object declared at two places (on the problem and on the function)
            con = (dn <= 2 * d0 + 0.25)
            p.add_constraint(con)
            f.add_constraint(con)
            c.constraints["twice"] = con
        elif ex == "const_metric":
            p.set_performance_metric(m + 0.5)
        elif ex == "two_metrics":
            p.set_performance_metric(2 * d0 + 0.125)
        elif ex == "two_metrics_low":
            # a second metric that is the smaller one at every instance: the objective is NOT the first declared metric
            p.set_performance_metric(0.5 * m)
            c.metrics.append(0.5 * m)
        elif ex == "one_sample_functions":
            # functions / operators with exactly ONE recorded sample (and one used through its transpose only): their
            # one-sample conditions (norm bounds, 1x1 class LMIs) are part of the model
            from PEPit.functions import ConvexLipschitzFunction
            from PEPit.operators import LinearOperator, SymmetricLinearOperator
            f3 = p.declare_function(ConvexLipschitzFunction, M=2.0)
            A = p.declare_function(LinearOperator, L=2.0)
            B = p.declare_function(SymmetricLinearOperator, mu=0.5, L=2.0)
            c.funcs["f3"], c.funcs["A"], c.funcs["B"] = f3, A, B
            c.points["g3"] = f3.gradient(x0)
            c.points["ATx"] = A.T.gradient(x0)
            c.points["Bx"] = B.gradient(x0)
            A2 = p.declare_function(LinearOperator, L=3.0)          # sampled once, its transpose never
            c.funcs["A2"] = A2
            c.points["A2x"] = A2.gradient(x0)
            f4 = p.declare_function(ConvexLipschitzFunction, M=1.5)   # unnamed, one-point condition, declared AFTER the operators
            c.funcs["f4"] = f4
            c.points["g4"] = f4.gradient(x0)
            con_T = (c.points["ATx"] ** 2 <= 3.5)                     # a constraint declared on the TRANSPOSE object
            A.T.add_constraint(con_T)
            c.constraints["on_transpose"] = con_T
        elif ex == "second_function":
            f2 = p.declare_function(SmoothStronglyConvexFunction, mu=0.1, L=1.0)
            c.funcs["f2"] = f2
            y0 = p.set_initial_point()
            ys = f2.stationary_point()
            p.add_constraint((y0 - ys) ** 2 <= 1)
            y1 = y0 - f2.gradient(y0)
            p.add_constraint((y1 - ys) ** 2 <= dn + 1)
            c.points["y1"] = y1
            # own constraints on two different functions (and an own LMI on the second one)
            f.add_constraint(d0 <= 2.5)
            f2.add_constraint((y0 - ys) ** 2 <= 2.0, name="f2_con")
            e2 = Expression()
            c.exprs["e_f2"] = e2
            f2.add_psd_matrix([[(y1 - ys) ** 2 + 1, e2], [e2, 1]])
            p.add_constraint(e2 <= 3)
        elif ex == "dup_eval":
            # evaluate again where the function was already evaluated (same decomposition, another object)
            target.oracle(1 * x0)
        elif ex == "dup_same":
            # evaluate again at the very same Point object (a non-differentiable class records a second sample)
            target.oracle(x0)
        elif ex == "same_name":
            # two different points carrying the same name
            z1, z2 = Point(name="twin"), Point(name="twin")
            target.oracle(z1)
            target.oracle(z2)
            p.add_constraint((z1 - x0) ** 2 + (z2 - x0) ** 2 <= 1)
        elif ex == "contradiction":
            p.add_constraint(d0 <= -1)
        elif ex == "many":
            pass
        else:
            raise KeyError(ex)
    return c


# ---------------------------------------------------------------------------------------------------------------

PATTERNS = {"f": ["sf", "sl", "two"], "o": ["sf", "sl"], "fix": ["sf", "sl"], "lin": ["sf"], "lin0": ["sf"]}
ALT_STEPS = {
    "f_smooth": ["inexact_abs", "inexact_rel", "els"],
    "f_nonsmooth": ["eps_sub", "iprox1", "iprox2", "iprox3"],
}
SMOOTH = {"SmoothConvexFunction", "SmoothStronglyConvexFunction", "SmoothStronglyConvexQuadraticFunction",
          "SmoothConvexLipschitzFunction"}
NONSMOOTH = {"ConvexFunction", "StronglyConvexFunction"}


def valid_extras(cls):
    out = [e for e in EXTRAS]
    return out


def enumerate_specs(tier, family="core"):
    """The complete list of specs of the grammar within the tier's bound (deterministic order, simplest first)."""
    specs = []
    quick = tier == "quick"
    for cls in CLASS_NAMES:
        info = CLASSES[cls]
        pars = range(1 if quick else len(info["params"]))
        pats = PATTERNS[info["kind"]]
        if cls in ("ConvexQGFunction", "RsiEbFunction"):
            pats = pats + ["none"]
        for par in pars:
            for pat in pats:
                for metric in (["negdist"] if pat == "none" else info["metrics"][:1] if quick else info["metrics"]):
                    for init in (["dist"] if quick else ["dist", "dist_eq", "fval"]):
                        if init == "fval" and (info["kind"] != "f" or pat == "none"):
                            continue
                        for n in ([1] if quick else [1, 2]):
                            specs.append(dict(cls=cls, par=par, pattern=pat, metric=metric, init=init, n=n))
    # extras on top of every class's base model (one extra at a time in quick, pairs in thorough)
    for cls in CLASS_NAMES:
        info = CLASSES[cls]
        base = dict(cls=cls, par=0, pattern="sf", metric=info["metrics"][0], init="dist", n=1)
        for ex in EXTRAS:
            specs.append(dict(base, extras=[ex]))
        if not quick:
            for e1, e2 in itertools.combinations(EXTRAS, 2):
                if (e1.startswith("lmi") and e2.startswith("lmi")) or (e1.startswith("fn_lmi") and e2.startswith("fn_lmi")):
                    continue          # both define exprs['e_lmi'] / exprs['e_fn']
                specs.append(dict(base, extras=[e1, e2]))
            specs.append(dict(base, named=True, fname="func", extras=["named_ineq"]))
    for cls in ("SmoothStronglyConvexFunction", "ConvexFunction", "LipschitzOperator", "SmoothConvexFunction"):
        specs.append(dict(cls=cls, par=0, pattern="sf", metric=CLASSES[cls]["metrics"][0], init="dist1e6", n=1))
    specs.append(dict(cls="SmoothStronglyConvexFunction", par=0, pattern="sf", metric="dist", init="dist", n=1, extras=["many_points"]))
    for cls in ("SmoothStronglyConvexFunction", "ConvexFunction", "LipschitzOperator", "SmoothConvexFunction"):
        for ex in ("partition_user_con", "tiny_active"):
            specs.append(dict(cls=cls, par=0, pattern="sf", metric=CLASSES[cls]["metrics"][0], init="dist", n=1, extras=[ex]))
    # multipliers spanning more than six orders of magnitude: rate 0.25^10 ~ 1e-6 on the initial condition ||x0 - x*||^2 <= 100
    specs.append(dict(cls="SmoothStronglyConvexFunction", par=3, pattern="sf", metric="dist", init="dist100", n=5))
    for par in range(1 if quick else 2):
        specs.append(dict(cls="LinearOperator", par=par, pattern="sf", step="lin_A", metric="grad", init="dist", n=1))
    # composites and alternative steps
    for cls in sorted(SMOOTH | NONSMOOTH):
        info = CLASSES[cls]
        for comp in ["sum", "zero", "cancel", "weighted"]:
            specs.append(dict(cls=cls, par=0, pattern="sf", comp=comp, step="prox", metric="dist", init="dist", n=1))
            if not quick:
                specs.append(dict(cls=cls, par=0, pattern="sl", comp=comp, step="prox", metric="dist", init="dist", n=2))
        for st in (ALT_STEPS["f_smooth"] if cls in SMOOTH else ALT_STEPS["f_nonsmooth"]):
            specs.append(dict(cls=cls, par=0, pattern="sf", step=st, metric=info["metrics"][0], init="dist", n=1))
            if not quick:
                specs.append(dict(cls=cls, par=0, pattern="sl", step=st, metric="dist", init="dist", n=2))
    return specs


def failing_specs(tier):
    """Models without a finite optimum: no initial condition (unbounded) or contradictory constraints (infeasible)."""
    specs = []
    for cls in CLASS_NAMES:
        info = CLASSES[cls]
        base = dict(cls=cls, par=0, pattern="sf", metric=info["metrics"][0], n=1)
        specs.append(dict(base, init="none"))
        specs.append(dict(base, init="dist", extras=["contradiction"]))
    return specs


def big_spec(n=12):
    """> 128 scalar constraints (gradient descent with n steps: (n+2)(n+1) class constraints)."""
    return dict(cls="SmoothStronglyConvexFunction", par=0, pattern="sf", metric="dist", init="dist", n=n)
