#!/bin/sh
# Offline setup: nothing to build (pure Python harness). Self-test: interpreter, solver availability, library import.
HERE="$(cd "$(dirname "$0")" && pwd)"
REPO="${VERIF_REPO:-/repo}"
cd "$HERE" || exit 1
chmod +x check 2>/dev/null
PYTHONPATH="$HERE:$REPO" PYTHONDONTWRITEBYTECODE=1 /venv/bin/python -W ignore - <<'PY'
import cvxpy, numpy
assert "CLARABEL" in cvxpy.installed_solvers() and "SCS" in cvxpy.installed_solvers(), cvxpy.installed_solvers()
import PEPit, mc.refalg
print("setup ok: PEPit from", PEPit.__file__, "cvxpy", cvxpy.__version__, "numpy", numpy.__version__)
PY
