#!/bin/sh
# tools/confirm_seed.sh <seed dir containing patch.diff, demo.py>  -> writes <seed dir>/confirm.txt
# Confirms in a scratch git worktree of /repo (removed afterwards): patch applies to HEAD, demo fails with / passes
# without the change, the pinned test suite still passes (only the two always-failing tests fail).
S="$1"
N=$(echo "$S" | tr '/' '_')
WT=/tmp/cw/$N
mkdir -p /tmp/cw
git -C /repo worktree remove --force "$WT" >/dev/null 2>&1
git -C /repo worktree add --detach "$WT" HEAD -q || exit 2
{
echo "repo HEAD: $(git -C /repo rev-parse --short HEAD)"
if git -C "$WT" apply --check "$S/patch.diff" 2>/dev/null; then git -C "$WT" apply "$S/patch.diff"; echo "patch: applies"; else
  if (cd "$WT" && patch -p1 -s --dry-run < "$S/patch.diff" >/dev/null 2>&1); then (cd "$WT" && patch -p1 -s < "$S/patch.diff"); echo "patch: applies (fuzz)"; else echo "patch: DOES NOT APPLY"; fi; fi
(cd /tmp && PYTHONPATH=/repo timeout 900 /venv/bin/python -W ignore "$S/demo.py" >/dev/null 2>&1); echo "demo on unchanged: exit $?"
(cd /tmp && PYTHONPATH="$WT" timeout 900 /venv/bin/python -W ignore "$S/demo.py" >/dev/null 2>&1); echo "demo on changed: exit $?"
(cd "$WT" && /venv/bin/python -m pytest -q -p no:cacheprovider --timeout=900 -x --deselect tests/test_examples.py::TestExamplesCVXPY::test_gradient_descent_lc --deselect tests/test_examples.py::TestExamplesMosek::test_gradient_descent_lc tests 2>&1 | tail -1)
} > "$S/confirm.txt" 2>&1
(cd "$WT" && git diff) > "$S/patch_on_head.diff"
git -C /repo worktree remove --force "$WT"
cat "$S/confirm.txt"
