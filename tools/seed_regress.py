#!/usr/bin/env python3
"""tools/seed_regress.py [seed ids...]: regression of detection.  For every adopted seeded change, run the quick checks listed
in its meta.json as detecting it (own property first) until one reports a violation; print the seeds no listed check detects
any more.  Runs from a private snapshot of /verif (so /verif can be edited meanwhile); two seeds at a time."""
import json, os, re, shutil, subprocess, sys, tempfile
from concurrent.futures import ThreadPoolExecutor
ROOT = "/verif"
SNAP = tempfile.mkdtemp(prefix="rgv.", dir="/tmp")
subprocess.run(["rsync", "-a", "--exclude", ".git", "--exclude", "replays", "--exclude", "evidence", "--exclude", "__pycache__", ROOT + "/", SNAP + "/"], check=True)
def detect(seed):
    meta = json.load(open("%s/seeded/%s/meta.json" % (ROOT, seed)))
    own = meta["breaks_property"]
    order = sorted(meta.get("detected_by_quick_checks", []), key=lambda c: (c != own, c)) or [own]
    d = tempfile.mkdtemp(prefix="rg.", dir="/tmp")
    try:
        os.makedirs(d + "/repo")
        subprocess.run(["rsync", "-a", "--exclude", "__pycache__", "/repo/PEPit", d + "/repo/"], check=True)
        p = subprocess.run("patch -p1 -s < %s/seeded/%s/patch.diff" % (ROOT, seed), shell=True, cwd=d + "/repo", capture_output=True, text=True)
        if p.returncode != 0:
            return seed, "patch-failed", []
        tried = []
        for c in order:
            env = dict(os.environ, VERIF_REPO=d + "/repo")
            q = subprocess.run([SNAP + "/check", c, "--tier", "quick", "--no-evidence", "--jobs", "8"], env=env, capture_output=True, text=True)
            tried.append(c)
            if q.returncode == 1 and re.search(r"^VIOLATION", q.stdout, re.M):
                return seed, "detected:" + c, tried
        return seed, "MISSED", tried
    finally:
        shutil.rmtree(d, ignore_errors=True)
def main():
    seeds = sys.argv[1:] or sorted(x for x in os.listdir(ROOT + "/seeded") if os.path.isdir("%s/seeded/%s" % (ROOT, x)))
    bad = []
    try:
        with ThreadPoolExecutor(2) as ex:
            for seed, res, tried in ex.map(detect, seeds):
                print(seed, res, ",".join(tried), flush=True)
                if not res.startswith("detected"):
                    bad.append(seed)
    finally:
        shutil.rmtree(SNAP, ignore_errors=True)
    print("NOT DETECTED ANY MORE:", bad)
if __name__ == "__main__":
    main()
