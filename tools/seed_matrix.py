#!/usr/bin/env python3
"""tools/seed_matrix.py [seed ids...]: run, for every seeded change, the quick check of its own property and of related
properties against a scratch copy of /repo with the change applied; writes seeded/MATRIX.json and updates each meta.json."""
import json, os, subprocess, sys, tempfile, shutil, re
ROOT = "/verif"
RELATED = {
    "C01": ["C01", "C10", "C11", "C13", "C05", "C02"], "C02": ["C02", "C14", "C11", "C13", "C05", "C01", "C06"],
    "C03": ["C03", "C04", "C09", "C05", "C07", "C01"], "C04": ["C04", "C03", "C10", "C17", "C05", "C13", "C15"],
    "C05": ["C05", "C11", "C15", "C13", "C04", "C06", "C08"], "C06": ["C06", "C12", "C02", "C13"], "C07": ["C07", "C03", "C08"],
    "C08": ["C08", "C09", "C13", "C05", "C07"], "C09": ["C09", "C10", "C04", "C08", "C03"],
    "C10": ["C10", "C09", "C04", "C01", "C07", "C15", "C08", "C03"], "C11": ["C11", "C05", "C02", "C01", "C14"], "C12": ["C12", "C13", "C16"],
    "C13": ["C13", "C16", "C12", "C05"], "C14": ["C14", "C02", "C13"], "C15": ["C15", "C13", "C05", "C03", "C04", "C12"],
    "C16": ["C16", "C13", "C08", "C15"], "C17": ["C17", "C01", "C13"],
}
SNAP = None
def snapshot():
    """the checks are run from a private copy of /verif, so that /verif can be edited while the matrix is being computed"""
    global SNAP
    if SNAP is None:
        SNAP = tempfile.mkdtemp(prefix="mxv.", dir="/tmp")
        subprocess.run(["rsync", "-a", "--exclude", ".git", "--exclude", "replays", "--exclude", "evidence", "--exclude", "__pycache__",
                        ROOT + "/", SNAP + "/"], check=True)
    return SNAP
def run(seed, check):
    d = tempfile.mkdtemp(prefix="mx.", dir="/tmp")
    try:
        os.makedirs(d + "/repo")
        subprocess.run(["rsync", "-a", "--exclude", "__pycache__", "/repo/PEPit", d + "/repo/"], check=True)
        p = subprocess.run("patch -p1 -s < %s/seeded/%s/patch.diff" % (ROOT, seed), shell=True, cwd=d + "/repo", capture_output=True, text=True)
        if p.returncode != 0:
            return "patch-failed"
        env = dict(os.environ, VERIF_REPO=d + "/repo")
        p = subprocess.run([snapshot() + "/check", check, "--tier", "quick", "--no-evidence"], env=env, capture_output=True, text=True)
        viol = len(re.findall(r"^VIOLATION", p.stdout, re.M))
        return "detected" if p.returncode == 1 and viol else ("harness-error" if p.returncode not in (0, 1) else "missed")
    finally:
        shutil.rmtree(d, ignore_errors=True)
def main():
    seeds = sys.argv[1:] or sorted(os.listdir(ROOT + "/seeded"))
    seeds = [s for s in seeds if os.path.isdir("%s/seeded/%s" % (ROOT, s))]
    path = ROOT + "/seeded/MATRIX.json"
    mat = json.load(open(path)) if os.path.exists(path) else {}
    for s in seeds:
        meta = json.load(open("%s/seeded/%s/meta.json" % (ROOT, s)))
        prop = meta["breaks_property"]
        row = mat.get(s, {})
        for c in RELATED[prop] + [x for x in meta.get("detected_by_quick_checks", []) if x not in RELATED[prop]]:
            row[c] = run(s, c)
            print(s, c, row[c], flush=True)
            if row[c] == "detected" and os.environ.get("SEED_MATRIX_FIRST"):
                break          # SEED_MATRIX_FIRST=1: own property first, stop at the first check that detects the change
        mat[s] = row
        meta["detected_by_quick_checks"] = sorted(c for c, r in row.items() if r == "detected")
        meta["missed_by_quick_checks"] = sorted(c for c, r in row.items() if r == "missed")
        json.dump(meta, open("%s/seeded/%s/meta.json" % (ROOT, s), "w"), indent=1)
        json.dump(mat, open(path, "w"), indent=1, sort_keys=True)
if __name__ == "__main__":
    try:
        main()
    finally:
        if SNAP:
            shutil.rmtree(SNAP, ignore_errors=True)
