#!/bin/sh
# tools/mutant_sed.sh <file under PEPit/> <sed expression> <ID> [<ID>...]: one-line mutant via sed on a scratch copy.
F="$1"; E="$2"; shift 2
TIER="${VERIF_TIER:-quick}"
D=$(mktemp -d /tmp/mut.XXXXXX)
trap 'rm -rf "$D"' EXIT
mkdir -p "$D/repo"
rsync -a --exclude __pycache__ /repo/PEPit "$D/repo/"
sed -i "$E" "$D/repo/PEPit/$F"
if diff -q /repo/PEPit/$F "$D/repo/PEPit/$F" >/dev/null; then echo "sed changed nothing"; exit 3; fi
diff -u /repo/PEPit/$F "$D/repo/PEPit/$F" | grep '^[-+]' | grep -v '^\(---\|+++\)' | cut -c1-160
for id in "$@"; do
  VERIF_REPO="$D/repo" /verif/check "$id" --tier "$TIER" --no-evidence 2>&1 | grep -E "VIOLATION|HARNESS|tier=" | cut -c1-300 | sort | uniq -c | sort -rn | head -6
done
