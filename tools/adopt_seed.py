#!/usr/bin/env python3
"""tools/adopt_seed.py <seed dir under /tmp/seed_out> <seeded id> <property> <detected_by comma list or '-'> [note]
Copies a CONFIRMED seeded change into /verif/seeded/<seeded id>/ (patch.diff against the current /repo HEAD, demo.py,
notes.md, meta.json)."""
import json, os, shutil, subprocess, sys
src, sid, prop, det = sys.argv[1:5]
note = sys.argv[5] if len(sys.argv) > 5 else ""
conf = open(os.path.join(src, "confirm.txt")).read()
assert "patch: applies" in conf and "demo on unchanged: exit 0" in conf and "demo on changed: exit 1" in conf, conf
last = [l for l in conf.splitlines() if "passed" in l]
assert last and "failed" not in last[-1], conf
dst = os.path.join("/verif/seeded", sid)
os.makedirs(dst, exist_ok=True)
shutil.copy(os.path.join(src, "patch_on_head.diff"), os.path.join(dst, "patch.diff"))
shutil.copy(os.path.join(src, "demo.py"), os.path.join(dst, "demo.py"))
if os.path.exists(os.path.join(src, "notes.md")):
    shutil.copy(os.path.join(src, "notes.md"), os.path.join(dst, "notes.md"))
needs = ""
if os.path.exists(os.path.join(src, "notes.md")):
    txt = open(os.path.join(src, "notes.md")).read()
    needs = txt[:1500]
meta = dict(id=sid, breaks_property=prop, origin="independent sub-agent given only the property text and a scratch worktree",
            needs_to_manifest=note or "see notes.md",
            confirmed=dict(repo_head=conf.splitlines()[0].split(": ")[1], patch_applies=True, demo_on_unchanged="exit 0",
                           demo_on_changed="exit 1", test_suite=last[-1].strip(),
                           how="tools/confirm_seed.sh in a scratch git worktree of /repo (removed afterwards); the two "
                               "always-failing test_gradient_descent_lc tests deselected"),
            detected_by_quick_checks=[d for d in det.split(",") if d and d != "-"],
            how_detection_was_run="tools/mutant.sh seeded/%s/patch.diff <ID>  (scratch copy of /repo/PEPit + patch, VERIF_REPO pointed at it)" % sid)
json.dump(meta, open(os.path.join(dst, "meta.json"), "w"), indent=1)
print("adopted", sid, "->", dst)
