#!/usr/bin/env python3
"""tools/make_seed_prompt.py <property id> <suffix>: write /tmp/seed_out/<ID><suffix>.prompt.txt for a fault-seeding sub-agent
(property TEXT only - title, statement, quantifier - plus the list of mechanisms earlier sub-agents already used, taken from the
adopted seeds' own notes; nothing about the checkers) and create its scratch worktree /tmp/wt/<ID><suffix>."""
import glob, json, os, re, subprocess, sys
pid, suf = sys.argv[1], sys.argv[2]
ID = pid + suf
wt = "/tmp/wt/" + ID
props = {json.loads(l)["id"]: json.loads(l) for l in open("/verif/properties.jsonl")}
P = props[pid]
text = "Property %s: %s\n\nStatement: %s\n\nQuantified over: %s\n" % (pid, P["title"], P["statement"], P["quantifier"]["text"])
tmpl = open("/verif/tools/seed_prompt_template.txt").read()
avoid = []
for d in sorted(glob.glob("/verif/seeded/%s-m*" % pid)):
    meta = json.load(open(d + "/meta.json"))
    files = sorted(set(re.findall(r"^diff --git a/(\S+)", open(d + "/patch.diff").read(), re.M)))
    note = meta.get("needs_to_manifest", "")
    if note.startswith("see notes") and os.path.exists(d + "/notes.md"):
        lines = [l.strip("# ").strip() for l in open(d + "/notes.md").read().splitlines() if l.strip()]
        note = lines[0][:200] if lines else ""
    avoid.append("      * %s: %s" % (", ".join(files), note))
out = tmpl.replace("@WT@", wt).replace("@ID@", ID).replace("@PROPERTY@", text)
if avoid:
    block = ("\n  - EARLIER rounds already produced changes through the following mechanisms; do NOT repeat them, find DIFFERENT "
             "files / mechanisms / triggers:\n" + "\n".join(avoid) + "\n")
    out = out.replace("PRACTICAL NOTES\n", "PRACTICAL NOTES\n" + block, 1)
os.makedirs("/tmp/seed_out/" + ID, exist_ok=True)
open("/tmp/seed_out/%s.prompt.txt" % ID, "w").write(out)
if not os.path.exists(wt):
    os.makedirs("/tmp/wt", exist_ok=True)
    subprocess.run(["git", "-C", "/repo", "worktree", "add", "--detach", wt, "HEAD"], check=True, capture_output=True)
print(ID, wt, len(avoid), "mechanisms to avoid")
