#!/bin/sh
# tools/run_all.sh [quick|thorough] [extra args]: run every registered check in turn on /repo, print one summary line each.
TIER="${1:-quick}"; shift 2>/dev/null
cd /verif || exit 2
rc=0
for id in C01 C02 C03 C04 C05 C06 C07 C08 C09 C10 C11 C12 C13 C14 C15 C16 C17; do
  out=$(./check "$id" --tier "$TIER" "$@" 2>&1); r=$?
  echo "$out" | grep -E "^VIOLATION|^HARNESS" | head -5
  echo "$out" | tail -1 | cut -c1-220 | sed "s/^/[exit $r] /"
  [ $r -ne 0 ] && rc=1
done
exit $rc
