#!/bin/sh
# tools/mutant.sh <patch.diff|-R:commit> <ID> [<ID>...]   run quick checks against a scratch copy of /repo with the patch
# applied.  "-R:<commit>" reverts that commit of /repo (used to show that a fix: commit's defect is re-detected).
# The scratch copy lives under /tmp and is removed afterwards.
set -e
PATCH="$1"; shift
case "$PATCH" in -R:*) ;; /*) ;; *) PATCH="$(pwd)/$PATCH" ;; esac
TIER="${VERIF_TIER:-quick}"
D=$(mktemp -d /tmp/mut.XXXXXX)
trap 'rm -rf "$D"' EXIT
mkdir -p "$D/repo"
(cd /repo && git archive HEAD PEPit) | tar -x -C "$D/repo"
# include uncommitted working-tree state of /repo/PEPit as well
rsync -a --delete --exclude __pycache__ /repo/PEPit/ "$D/repo/PEPit/"
case "$PATCH" in
  -R:*) (cd /repo && git show "${PATCH#-R:}" -- PEPit) | (cd "$D/repo" && patch -R -p1 -s) ;;
  *) (cd "$D/repo" && patch -p1 -s < "$PATCH") ;;
esac
set +e
rc=0
for id in "$@"; do
  VERIF_REPO="$D/repo" /verif/check "$id" --tier "$TIER" --no-evidence 2>&1 | grep -E "VIOLATION|KNOWN-FINDING|HARNESS|tier=" | cut -c1-400
done
exit 0
