#!/venv/bin/python
"""Regenerates MANIFEST.json from the table below (single source of truth) and validates it against the schema."""
import json, os, sys
HERE = os.path.dirname(os.path.abspath(__file__))
BASE = json.load(open("/root/.vp/BASELINE.json")) if os.path.exists("/root/.vp/BASELINE.json") else {}

CHECKS = {}   # id -> dict(category, text, note, technique, design_ref, thorough=True)
NOT_YET = {}  # id -> reason

def load():
    import importlib.util
    spec = importlib.util.spec_from_file_location("manifest_table", os.path.join(HERE, "manifest_table.py"))
    m = importlib.util.module_from_spec(spec); spec.loader.exec_module(m)
    return m

def main():
    t = load()
    checks = []
    for pid in sorted(t.CHECKS):
        c = t.CHECKS[pid]
        ent = dict(property_id=pid, quick_cmd="./check %s --tier quick" % pid,
                   evidence_file="/verif/evidence/%s.json" % pid,
                   replay_cmd_template="./check --replay {path}", engine="mc",
                   level_claimed=dict(category=c["category"], text=c["text"], design_ref=c.get("design_ref", "DESIGN.md §4 " + pid)),
                   level_note=c["note"], technique=c["technique"])
        if c.get("thorough", True):
            ent["thorough_cmd"] = "./check %s --tier thorough" % pid
        checks.append(ent)
    for e in t.ENGINES:
        e["serves_properties"] = sorted(t.CHECKS)
    man = dict(version=1, setup_cmd=t.SETUP, hooks=t.HOOKS, engines=t.ENGINES, checks=checks, notes=t.NOTES,
               not_applicable=[dict(property_id=k, reason=v) for k, v in sorted(t.NOT_APPLICABLE.items())])
    json.dump(man, open(os.path.join(HERE, "MANIFEST.json"), "w"), indent=1)
    try:
        import jsonschema
        jsonschema.validate(man, json.load(open("/root/.vp/MANIFEST.schema.json")))
        print("MANIFEST.json valid; %d checks, %d not_applicable" % (len(checks), len(man["not_applicable"])))
    except ImportError:
        print("jsonschema not available; MANIFEST.json written without validation")

if __name__ == "__main__":
    main()
