import warnings; warnings.filterwarnings("ignore")
import probe_certificate_models as t8
from PEPit import null_point, null_expression, Point
p=t8.m_gd(1); p.solve(verbose=0, solver="CLARABEL"); print("A: Point.counter", Point.counter, "null_point.eval()", null_point.eval(), null_expression.eval())
p=t8.m_gd(3); p.solve(verbose=0, solver="CLARABEL"); print("B: Point.counter", Point.counter, "null_point.eval()", null_point.eval())
