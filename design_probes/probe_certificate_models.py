import warnings; warnings.filterwarnings("ignore")
import numpy as np
from PEPit import PEP, Point, Expression
from PEPit.functions import *
from PEPit.operators import *
from PEPit.primitive_steps import *
from probe_refalg_certificate import certificate
def m_gd(n=2):
    p=PEP(); f=p.declare_function(SmoothStronglyConvexFunction, mu=.1, L=1.)
    xs=f.stationary_point(); x0=p.set_initial_point(); p.set_initial_condition((x0-xs)**2<=1)
    x=x0
    for _ in range(n): x=x-f.gradient(x)
    p.set_performance_metric((x-xs)**2); return p
def m_eq():
    p=PEP(); f=p.declare_function(SmoothConvexFunction, L=1.)
    xs=f.stationary_point(); x0=p.set_initial_point(); p.set_initial_condition((x0-xs)**2==2)
    x1=x0-f.gradient(x0); p.add_constraint(f(x0)-f(xs)<=0.3, name="u")
    p.set_performance_metric(f(x1)-f(xs)); p.set_performance_metric(f(x0)-f(xs)+0.1); return p
def m_lmi():
    p=PEP(); f=p.declare_function(SmoothStronglyConvexFunction, mu=.1, L=1.)
    xs=f.stationary_point(); x0=p.set_initial_point(); p.set_initial_condition((x0-xs)**2<=1)
    x1=x0-f.gradient(x0); e=Expression(); p.add_psd_matrix([[(x1-xs)**2, e],[e,1]]); p.set_performance_metric(e); return p
def m_lmi_ns():
    p=PEP(); f=p.declare_function(SmoothStronglyConvexFunction, mu=.1, L=1.)
    xs=f.stationary_point(); x0=p.set_initial_point(); p.set_initial_condition((x0-xs)**2<=1)
    x1=x0-f.gradient(x0); e=Expression(); e2=Expression(); p.add_psd_matrix([[(x1-xs)**2, e],[e2,1]]); p.set_performance_metric(e); return p
def m_quad():
    p=PEP(); f=p.declare_function(SmoothStronglyConvexQuadraticFunction, mu=.1, L=1.)
    xs=f.stationary_point(); x0=p.set_initial_point(); p.set_initial_condition((x0-xs)**2<=1)
    x=x0
    for _ in range(2): x=x-f.gradient(x)
    p.set_performance_metric(f(x)-f(xs)); return p
def m_symlin():
    p=PEP(); A=p.declare_function(SymmetricLinearOperator, mu=.1, L=1.)
    x0=p.set_initial_point(); p.set_initial_condition(x0**2<=1)
    x1=x0-A.gradient(x0); x2=x1-A.gradient(x1); p.set_performance_metric(x2**2); return p
def m_lin():
    p=PEP(); A=p.declare_function(LinearOperator, L=1.)
    x0=p.set_initial_point(); p.set_initial_condition(x0**2<=1)
    y=A.gradient(x0); z=A.T.gradient(y); p.set_performance_metric(z**2); return p
def m_block():
    p=PEP(); part=p.declare_block_partition(d=2)
    f=p.declare_function(BlockSmoothConvexFunction, partition=part, L=[1.,2.])
    xs=f.stationary_point(); x0=p.set_initial_point(); g0=f.gradient(x0)
    p.set_initial_condition((x0-xs)**2<=1); x1=x0-0.5*part.get_block(g0,0)
    p.set_performance_metric(f(x1)-f(xs)); return p
def m_comp():
    p=PEP(); f1=p.declare_function(SmoothStronglyConvexFunction, mu=.1, L=1.); f2=p.declare_function(ConvexFunction)
    F=f1+f2; xs=F.stationary_point(); x0=p.set_initial_point(); p.set_initial_condition((x0-xs)**2<=1)
    y=x0-f1.gradient(x0); x1,_,_=proximal_step(y,f2,1.0); p.set_performance_metric((x1-xs)**2); return p
for name,b in [("gd",m_gd),("eq",m_eq),("lmi",m_lmi),("lmi_ns",m_lmi_ns),("quad",m_quad),("symlin",m_symlin),("lin",m_lin),("block",m_block),("comp",m_comp)]:
    for solver in ["CLARABEL","SCS"]:
        for dr in [None,"trace"]:
            p=b()
            try:
                tau=p.solve(verbose=0, solver=solver, dimension_reduction_heuristic=dr)
                c=certificate(p)
                print(f"{name:7s} {solver:8s} {str(dr):6s} status={p.wrapper.prob.status:18s} tau={tau:.8f} const-tau={c['const']-tau:+.1e} resid={c['resid']:.1e} lam_min={c['lam_min']:.1e} psd_min={c['psd_min']:.1e}")
            except Exception as e:
                print(name,solver,dr,"EXC",type(e).__name__,str(e)[:100])
