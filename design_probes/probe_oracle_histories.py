import warnings; warnings.filterwarnings("ignore")
import itertools, collections
import numpy as np
from PEPit import PEP, Point, Expression
from PEPit.functions import SmoothConvexFunction, ConvexFunction
from PEPit.function import Function

def dec_pt(p):  # canonical decomposition of a Point: {leaf counter: coeff}
    return {k.counter: v for k, v in p.decomposition_dict.items() if v != 0}
def dec_ex(e):
    if e.get_is_leaf(): return {('f', e.counter): 1}
    d = {}
    for k, v in e.decomposition_dict.items():
        if v == 0: continue
        if isinstance(k, Expression): d[('f', k.counter)] = d.get(('f',k.counter),0)+v
        elif isinstance(k, tuple):
            a,b = sorted((k[0].counter,k[1].counter)); d[('g',a,b)] = d.get(('g',a,b),0)+v
        else: d[1] = d.get(1,0)+v
    return {k:v for k,v in d.items() if abs(v)>1e-12}
def close(d1,d2,tol=1e-9):
    ks=set(d1)|set(d2)
    return all(abs(d1.get(k,0)-d2.get(k,0))<=tol for k in ks)
def lin(ds, ws):
    out={}
    for d,w in zip(ds,ws):
        for k,v in d.items(): out[k]=out.get(k,0)+w*v
    return {k:v for k,v in out.items() if abs(v)>1e-12}

def build(hist, combo):
    p = PEP()
    f1 = p.declare_function(SmoothConvexFunction, L=1.)   # differentiable
    f2 = p.declare_function(ConvexFunction)               # non differentiable
    if combo == "sum": F = f1 + f2
    elif combo == "w": F = -1*f1 + 2*f2
    elif combo == "zero": F = f1 + 0*f2
    elif combo == "cancel": F = f1 + f2 - f2
    elif combo == "nested": F = (f1 + f2) + f1
    fs = {"f1": f1, "f2": f2, "F": F}
    x0 = p.set_initial_point(); x1 = p.set_initial_point()
    pts = {"x0": x0, "x1": x1, "x0c": 1*x0}
    rets=[]
    for (fn, op, pt) in hist:
        f = fs[fn]
        if op == "oracle": rets.append(f.oracle(pts[pt]))
        elif op == "gradient": rets.append((f.gradient(pts[pt]),None))
        elif op == "value": rets.append((None,f.value(pts[pt])))
        elif op == "stat": rets.append(f.stationary_point(return_gradient_and_function_value=True))
    return fs, pts, rets

def check(fs, hist):
    errs=[]
    F=fs["F"]
    # I1: one function value per point per function
    for name,f in fs.items():
        seen={}
        for (x,g,v) in f.list_of_points:
            key=tuple(sorted(dec_pt(x).items()))
            if key in seen:
                if not close(seen[key][1], dec_ex(v)): errs.append(("I1 two values", name, key))
                if f.reuse_gradient and not close(seen[key][0], dec_pt(g)): errs.append(("I2 two grads diff'ble", name, key))
            else: seen[key]=(dec_pt(g),dec_ex(v))
    # I3: composite triplets are weighted sums
    w = {k:v for k,v in F.decomposition_dict.items() if v!=0}
    for (x,g,v) in F.list_of_points:
        key=dec_pt(x)
        cands=[]
        ok=True
        for term,wt in w.items():
            c=[(dec_pt(gg),dec_ex(vv)) for (xx,gg,vv) in term.list_of_points if close(dec_pt(xx),key)]
            if not c: ok=False; errs.append(("I3 term not sampled", key)); break
            cands.append((wt,c))
        if not ok: continue
        found=False
        for choice in itertools.product(*[c for _,c in cands]):
            G=lin([c[0] for c in choice],[wt for wt,_ in cands]); V=lin([c[1] for c in choice],[wt for wt,_ in cands])
            if close(G,dec_pt(g)) and close(V,dec_ex(v)): found=True;break
        if not found: errs.append(("I3 not weighted sum", key))
    return errs

import sys
ops=[(fn,op,pt) for fn in ["f1","f2","F"] for op in ["oracle","gradient","value"] for pt in ["x0","x1","x0c"]]+[(fn,"stat",None) for fn in ["f1","f2","F"]]
for combo in ["sum","w","zero","cancel","nested"]:
    bad=collections.Counter(); first={}
    n=0
    for depth in [1,2,3]:
        for hist in itertools.product(ops, repeat=depth):
            n+=1
            try:
                fs,pts,rets=build(hist,combo)
                errs=check(fs,hist)
            except Exception as e:
                errs=[("EXC",type(e).__name__,str(e)[:50])]
            for e in errs:
                k=e[0] if e[0]!="EXC" else e
                bad[k]+=1
                first.setdefault(k,hist)
    print(combo,n,dict(bad))
    for k,h in first.items(): print("   first",k,h)
