"""Does the certificate identity close once antisymmetric corrections are allowed on LMI multipliers, exactly on the
entry pairs that are written differently?  (explanation predicate of finding 6)"""
import warnings; warnings.filterwarnings("ignore")
import numpy as np
from PEPit import Point, Expression
import probe_certificate_models as t8
from probe_refalg_certificate import functional

def residual_vector(pep):
    G,F,c=functional(pep.objective); R=np.array(pep.residual); G=G+(R+R.T)/2
    for con in pep._list_of_constraints_sent_to_wrapper:
        lam=con.eval_dual(); g,f,cc=functional(con.expression); G-=lam*g; F-=lam*f
    cols=[]
    for M in pep._list_of_psd_sent_to_wrapper:
        S=M.eval_dual(); n=M.shape[0]
        for i in range(n):
            for j in range(n):
                g,f,cc=functional(M[i,j]); G+=S[i,j]*g; F+=S[i,j]*f
        for i in range(n):
            for j in range(i):
                gi,fi,ci=functional(M[i,j]); gj,fj,cj=functional(M[j,i])
                dg,df=gi-gj,fi-fj
                if np.abs(dg).max()>0 or (df.size and np.abs(df).max()>0) or ci!=cj:
                    cols.append(np.concatenate([dg.ravel(),df]))
    r=np.concatenate([G.ravel(),F])
    return r, (np.array(cols).T if cols else np.zeros((r.size,0)))
for name in ["m_gd","m_lmi","m_lmi_ns","m_quad","m_symlin","m_lin"]:
    p=getattr(t8,name)(); p.solve(verbose=0, solver="CLARABEL")
    r,A=residual_vector(p)
    before=np.abs(r).max()
    if A.shape[1]:
        k,*_=np.linalg.lstsq(A,-r,rcond=None); after=np.abs(r+A@k).max()
    else: after=before
    print(f"{name:9s} asym-pairs={A.shape[1]:2d} residual before={before:.1e} after allowing antisymmetric corrections={after:.1e}")
# negative control: flip the sign of one scalar dual in a non-symmetric-LMI model: must NOT be explained
p=t8.m_quad(); p.solve(verbose=0, solver="CLARABEL")
c=max(p._list_of_constraints_sent_to_wrapper, key=lambda c: abs(c.eval_dual())); c._dual_variable_value*=-1
r,A=residual_vector(p); k,*_=np.linalg.lstsq(A,-r,rcond=None)
print("control (one dual sign flipped): before=%.1e after=%.1e" % (np.abs(r).max(), np.abs(r+A@k).max()))
for idx in range(3):
    p=t8.m_quad(); p.solve(verbose=0, solver="CLARABEL")
    cons=[c for c in p._list_of_constraints_sent_to_wrapper if c.equality_or_inequality=="inequality" or "value" in (c.get_name() or "")]
    c=cons[idx]; old=c._dual_variable_value; c._dual_variable_value=-old if abs(old)>1e-6 else 0.3
    r,A=residual_vector(p); k,*_=np.linalg.lstsq(A,-r,rcond=None)
    print("control on %-45s dual %.3f -> %.3f: before=%.1e after=%.1e" % (c.get_name() or "constraint %d"%idx, old, c._dual_variable_value, np.abs(r).max(), np.abs(r+A@k).max()))
