import warnings; warnings.filterwarnings("ignore")
from PEPit import PEP
from PEPit.operators import SkewSymmetricLinearOperator
p=PEP(); A=p.declare_function(SkewSymmetricLinearOperator, L=1.)
x0=p.set_initial_point(); p.set_initial_condition(x0**2<=1)
y=A.gradient(x0)
p.set_performance_metric(x0*y)      # <x, Ax> must be 0 for every skew-symmetric A
print("max <x0, A x0> over skew-symmetric A, |x0|<=1 :", p.solve(verbose=0, solver="CLARABEL"))
print([c.get_name() for c in A.list_of_class_constraints], len(A.list_of_class_psd))
