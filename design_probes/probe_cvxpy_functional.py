import warnings; warnings.filterwarnings("ignore")
import numpy as np, time
from PEPit import PEP, Point, Expression
from PEPit.functions import *
p=PEP(); f=p.declare_function(SmoothStronglyConvexQuadraticFunction, mu=.1, L=1.)
xs=f.stationary_point(); x0=p.set_initial_point()
p.set_initial_condition((x0-xs)**2<=1)
x1=x0-f.gradient(x0)
e=Expression()
p.add_psd_matrix([[(x1-xs)**2, e],[e,1]])
p.set_performance_metric(e)
v=p.solve(verbose=0, solver="CLARABEL")
w=p.wrapper
print(type(w.prob.constraints[0]).__name__, [type(c).__name__ for c in w.prob.constraints][:8], len(w.prob.constraints))
nG=w.G.shape[0]; nF=w.F.shape[0]
t=time.time()
def functional(c):
    ex=c.expr
    others=[v_ for v_ in ex.variables() if v_ is not w.G and v_ is not w.F]
    for o in others: o.value=np.zeros(o.shape)
    w.G.value=np.zeros((nG,nG)); w.F.value=np.zeros(nF)
    c0=np.array(ex.value).copy()
    Fw=[]
    for k in range(nF):
        z=np.zeros(nF); z[k]=1; w.F.value=z; Fw.append(np.array(ex.value)-c0)
    w.F.value=np.zeros(nF)
    Gw=np.zeros((nG,nG))
    for i in range(nG):
        for j in range(i,nG):
            Z=np.zeros((nG,nG)); Z[i,j]=1; Z[j,i]=1; w.G.value=Z
            val=np.array(ex.value)-c0
            if val.shape==(): Gw[i,j]=Gw[j,i]=float(val)/(1 if i==j else 2)
    return c0,Fw,Gw
for c in w.prob.constraints[1:4]:
    c0,Fw,Gw=functional(c); print(type(c).__name__, c0, np.array(Fw).ravel(), Gw.round(3).tolist())
print("time", time.time()-t)
