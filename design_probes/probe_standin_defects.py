import warnings; warnings.filterwarnings("ignore")
import sys
import numpy as np, cvxpy
sys.path.insert(0, "/verif/design_probes/_standin_path")
import mosek
from PEPit import PEP, Point, Expression, PSDMatrix
from PEPit.functions import *
from probe_refalg_certificate import certificate
import probe_certificate_models as t8
def run(label, build, **kw):
    try:
        p=build(); tc=p.solve(verbose=0, solver="CLARABEL", wrapper="cvxpy", **kw)
    except Exception as e: tc="EXC "+type(e).__name__
    try:
        p=build(); tm=p.solve(verbose=0, wrapper="mosek", **kw)
        extra = certificate(p)['resid'] if tm is not None else None
    except Exception as e: tm="EXC "+type(e).__name__+" "+str(e)[:80]; extra=None
    print(label, "| cvxpy:", tc, "| mosek:", tm, "| resid:", extra)
run("(i) GD n=12 (13 samples, 158 rows)", lambda: t8.m_gd(12))
def qg_nostat():
    p=PEP(); f=p.declare_function(ConvexQGFunction, L=1.)
    x0=p.set_initial_point(); g0,f0=f.oracle(x0); x1=x0-0.5*g0
    p.set_initial_condition(x0**2<=1)   # crude
    p.set_performance_metric(-(x1**2))
    return p
run("(ii) QG, no declared stationary point", qg_nostat)
def two_lmi_rev():
    p=PEP(); f=p.declare_function(SmoothStronglyConvexFunction, mu=.1, L=1.)
    xs=f.stationary_point(); x0=p.set_initial_point(); p.set_initial_condition((x0-xs)**2<=1)
    x1=x0-f.gradient(x0); e=Expression(); e2=Expression()
    A=PSDMatrix([[(x1-xs)**2, e],[e,1]]); B=PSDMatrix([[(x0-xs)**2, e2, 0],[e2,1, 0],[0,0,1]])
    p.add_psd_matrix(B); p.add_psd_matrix(A)       # sent in reverse creation order
    p.set_performance_metric(e); return p
run("(iii) two LMIs sent in reverse creation order", two_lmi_rev)
def unsent():
    p=PEP(); f=p.declare_function(SmoothStronglyConvexFunction, mu=.1, L=1.)
    xs=f.stationary_point(); x0=p.set_initial_point(); p.set_initial_condition((x0-xs)**2<=1)
    x1=x0-f.gradient(x0); e=Expression()
    unused=PSDMatrix([[e]])
    p.add_psd_matrix([[(x1-xs)**2, e],[e,1]]); p.set_performance_metric(e); return p
run("(iii') one LMI created but never sent", unsent)
def resolve_quad():
    p=t8.m_quad(); p.solve(verbose=0, wrapper="mosek"); return p
run("(iii'') re-solve of a model with a class LMI", resolve_quad)
def unbounded():
    p=PEP(); f=p.declare_function(SmoothStronglyConvexFunction, mu=.1, L=1.)
    xs=f.stationary_point(); x0=p.set_initial_point()
    x1=x0-f.gradient(x0); p.set_performance_metric((x1-xs)**2); return p
run("(iv) unbounded model", unbounded)
def infeasible():
    p=t8.m_gd(1); x=p.list_of_points[0]; p.add_constraint(x**2<=-1); return p
run("(iv') infeasible model", infeasible)
