import numpy as np
from PEPit import Point, Expression
def functional(expr, nP=None, nF=None):
    nP = Point.counter if nP is None else nP; nF = Expression.counter if nF is None else nF
    G=np.zeros((nP,nP)); F=np.zeros(nF); c=0.0
    if expr.get_is_leaf():
        F[expr.counter]+=1; return G,F,c
    for k,w in expr.decomposition_dict.items():
        if isinstance(k,tuple):
            i,j=k[0].counter,k[1].counter
            G[i,j]+=w/2; G[j,i]+=w/2
        elif isinstance(k,Expression): F[k.counter]+=w
        elif k==1: c+=w
        else: raise TypeError(k)
    return G,F,c
def certificate(pep):
    nP=Point.counter; nF=Expression.counter
    G,F,c=functional(pep.objective)
    R=np.array(pep.residual); out={}
    G=G+ (R+R.T)/2
    lam_min=0; scale=1.0
    for con in pep._list_of_constraints_sent_to_wrapper:
        lam=con.eval_dual()
        g,f,cc=functional(con.expression)
        G-=lam*g; F-=lam*f; c-=lam*cc
        scale=max(scale,abs(lam)*max(np.abs(g).max() if g.size else 0,np.abs(f).max() if f.size else 0,abs(cc)))
        if con.equality_or_inequality=="inequality": lam_min=min(lam_min,lam)
    psd_min=min(0,np.linalg.eigvalsh((R+R.T)/2).min())
    for M in pep._list_of_psd_sent_to_wrapper:
        S=M.eval_dual()
        psd_min=min(psd_min,np.linalg.eigvalsh((S+S.T)/2).min())
        n=M.shape[0]
        for i in range(n):
            for j in range(n):
                g,f,cc=functional(M[i,j])
                G+=S[i,j]*g; F+=S[i,j]*f; c+=S[i,j]*cc
    resid=max(np.abs(G).max(), np.abs(F).max() if F.size else 0)
    return dict(const=c, resid=resid, lam_min=lam_min, psd_min=psd_min, scale=scale)
