import warnings; warnings.filterwarnings("ignore")
import sys, importlib, importlib.util
import numpy as np, cvxpy
sys.path.insert(0, "/verif/design_probes/_standin_path")
import mosek
print("spec", importlib.util.find_spec("mosek") is not None)
from PEPit import PEP, Point, Expression
from probe_refalg_certificate import certificate
import probe_certificate_models as t8
for name in ["m_gd","m_eq","m_lmi","m_lmi_ns","m_quad","m_symlin","m_lin","m_block","m_comp"]:
    for dr in [None,"trace","logdet1"]:
        b=getattr(t8,name)
        p=b(); tc=p.solve(verbose=0, solver="CLARABEL", wrapper="cvxpy")
        p=b()
        try:
            tm=p.solve(verbose=0, wrapper="mosek", dimension_reduction_heuristic=dr)
            c=certificate(p)
            print(f"{name:8s} {str(dr):8s} wrapper={p.wrapper_name} cvxpy={tc:.8f} mosek={tm:.8f} resid={c['resid']:.1e} lam_min={c['lam_min']:.1e} psd_min={c['psd_min']:.1e} selfcheck={p.wrapper.task.sol.get('selfcheck')}")
        except Exception as e:
            import traceback
            print(name,dr,"EXC",type(e).__name__,str(e)[:150])
