import warnings; warnings.filterwarnings("ignore")
import numpy as np
from PEPit import PEP, Point, Expression
from PEPit.functions import *
from PEPit.operators import *
# 1
p=PEP(); x=Point(); c=(x**2<=1)
try: c.eval()
except Exception as e: print("1 Constraint.eval unsolved ->", type(e).__name__, e)
e=Expression()
try: (e<=1).eval()
except Exception as e_: print("1b ->", type(e_).__name__)
# 2 QG order
def qg(order):
    p=PEP(); f=p.declare_function(ConvexQGFunction, L=1.)
    if order=="first":
        xs=f.stationary_point(); x0=p.set_initial_point(); g0,f0=f.oracle(x0)
    else:
        x0=p.set_initial_point(); g0,f0=f.oracle(x0); xs=f.stationary_point()
    fs=f(xs)
    p.set_initial_condition((x0-xs)**2<=1)
    p.set_performance_metric(f0-fs)
    return p.solve(verbose=0, solver="CLARABEL")
for o in ["first","last"]:
    try: print("2 QG", o, qg(o))
    except Exception as e_: print("2 QG", o, type(e_).__name__)
# 3 block smooth tables
p=PEP(); part=p.declare_block_partition(d=2)
f=p.declare_function(BlockSmoothConvexFunction, partition=part, L=[1.,2.])
xs=f.stationary_point(); x0=p.set_initial_point(); g0=f.gradient(x0)
p.set_initial_condition((x0-xs)**2<=1)
x1=x0-0.5*part.get_block(g0,0)
p.set_performance_metric(f(x1)-f(xs))
v=p.solve(verbose=0, solver="CLARABEL"); print("3 value",v, len(p._list_of_constraints_sent_to_wrapper), len(part.list_of_constraints))
try: print(f.get_class_constraints_duals())
except Exception as e_: print("3 duals ->", type(e_).__name__, e_)
v=p.solve(verbose=0, solver="CLARABEL"); print("3 resolve value",v, len(p._list_of_constraints_sent_to_wrapper), len(part.list_of_constraints))
# 4 stale
p=PEP(); f=p.declare_function(SmoothStronglyConvexFunction, mu=.1, L=1.)
xs=f.stationary_point(); x0=p.set_initial_point()
c1=(x0-xs)**2<=1
p.set_initial_condition(c1)
x1=x0-f.gradient(x0); d=x1-xs
m=d**2
p.set_performance_metric(m)
v=p.solve(verbose=0, solver="CLARABEL"); print("4", v, m.eval(), d.eval()@d.eval())
p.list_of_constraints=[ (x0-xs)**2<=4 ]
v=p.solve(verbose=0, solver="CLARABEL"); print("4 after edit", v, m.eval(), d.eval()@d.eval(), ((x1-xs)**2).eval())
# 5 class psd growth
p=PEP(); f=p.declare_function(SmoothStronglyConvexQuadraticFunction, mu=.1, L=1.)
xs=f.stationary_point(); x0=p.set_initial_point()
p.set_initial_condition((x0-xs)**2<=1)
x1=x0-f.gradient(x0)
p.set_performance_metric((x1-xs)**2)
for k in range(3):
    v=p.solve(verbose=0, solver="CLARABEL"); print("5", v, len(p._list_of_psd_sent_to_wrapper), len(p._list_of_constraints_sent_to_wrapper))
