import warnings; warnings.filterwarnings("ignore")
import numpy as np
import probe_certificate_models as t8
from probe_refalg_certificate import certificate
for name in ["m_gd","m_lmi","m_comp","m_block","m_lin"]:
    b=getattr(t8,name)
    p=b(); d0=p.solve(verbose=0, solver="CLARABEL"); G0=p.G_value.copy()
    p=b(); p0=p.solve(verbose=0, solver="CLARABEL", return_primal_or_dual="primal")
    for h in ["trace","logdet1","logdet3"]:
        for tol in [1e-4,1e-2]:
            for solver in ["CLARABEL","SCS"]:
                try:
                    p=b(); d=p.solve(verbose=0, solver=solver, dimension_reduction_heuristic=h, tol_dimension_reduction=tol)
                    c=certificate(p)
                    q=b(); pr=q.solve(verbose=0, solver=solver, dimension_reduction_heuristic=h, tol_dimension_reduction=tol, return_primal_or_dual="primal")
                    print(f"{name:7s} {h:8s} tol={tol:g} {solver:8s} dual-d0={d-d0:+.1e} resid={c['resid']:.1e} primal-p0={pr-p0:+.2e} tr={np.trace(p.G_value):.4f} tr0={np.trace(G0):.4f} rank={np.sum(np.linalg.eigvalsh(p.G_value)>1e-6)} status={p.wrapper.prob.status}")
                except Exception as e:
                    print(name,h,tol,solver,"EXC",type(e).__name__,str(e)[:80])
